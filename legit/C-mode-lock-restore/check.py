"""Self-check for a behaviour-preserving rewrite of the PyTrapIC compiler internals.

Run as:  PYTHONPATH=/tmp/wt-legitC/src /venv/bin/python check.py

Exercises compile_code with valid, failing and constexpr programs (including a
non-terminating constexpr function), repeated and interleaved calls with different
options, compares against fresh processes and verifies that the caller's objects are
not modified and that no helper process survives.  Exits 0 when everything holds.
"""

import atexit
import copy
import dataclasses
import json
import os
import random
import shutil
import subprocess
import sys
import tempfile
import time
from pathlib import Path

# The constexpr helper is a fresh interpreter with a hard 1 s budget; without byte-code
# caching it spends longer than that just compiling the generated modules on a loaded
# machine.  Give this run (and the helpers, which inherit the environment) a private
# byte-code cache, so that the timing sensitive cases are meaningful.
_PYC = tempfile.mkdtemp(prefix="pytrapic-check-pyc-")
atexit.register(shutil.rmtree, _PYC, True)
os.environ.pop("PYTHONDONTWRITEBYTECODE", None)
os.environ["PYTHONPYCACHEPREFIX"] = _PYC
subprocess.run(
    [sys.executable, "-c", "import stationeers_pytrapic.symbols, stationeers_pytrapic.compiler"],
    stdin=subprocess.DEVNULL,
    timeout=300,
)

import stationeers_pytrapic
from stationeers_pytrapic.compiler import CompileOptions, compile_code

FAILURES = []


def check(cond, msg):
    if not cond:
        FAILURES.append(msg)
        print("FAIL:", msg, file=sys.stderr)


# --------------------------------------------------------------------------- corpus

HDR = "from stationeers_pytrapic.symbols import *\n"

INLINE = {
    "empty": "",
    "only_comment": "# nothing here",
    "simple": HDR + "x = d0.Setting\nd1.Setting = x + 1\n",
    "no_trailing_newline": HDR + "d0.On = 1",
    "crlf": HDR.replace("\n", "\r\n") + "x = d0.Setting\r\nd1.Setting = x * 2\r\n",
    "bool_const": HDR + "a = True\nd0.On = a\nd1.On = False\nd2.Setting = 1\n",
    "floats": HDR
    + "d0.Setting = 0.1\nd1.Setting = 0.001234\nd2.Setting = 1e-9\nd3.Setting = 123456.789\n"
    + "d4.Setting = -0.0\nd5.Setting = 20000\ndb.Setting = 3.0\n",
    "big_ints": HDR + "d0.Setting = 10000\nd1.Setting = 10001\nd2.Setting = 545937711\nd3.Setting = -5\n",
    "hash_str": HDR
    + 'd0.Setting = HASH("StructureAdvancedFurnace")\nd1.Setting = STR("Hi")\n'
    + 'x = AdvancedFurnaces["Main"].Temperature.Average\nd2.Setting = x\n',
    "enums": HDR
    + "disp = ConsoleLED1x2(d0)\ndisp.Mode = DisplayMode.String\ndisp.Color = Color.Red\n"
    + "y = GasSensors.Temperature.Maximum\nd1.Setting = y\n",
    "alias": HDR
    + 'p1 = SolarPanel(d1, alias=True)\np2 = SolarPanel(d2, alias="PANEL")\np1.Horizontal = 2\np2.Vertical = 3\n',
    "registers": HDR + "x = r0 + 1\nd0.Setting = x\nsp = 5\n",
    "stack": HDR + "stack[0] = 5\nx = stack[1]\nd0.Setting = x\ns = Stack(d1)\ns[3] = x + 1\n",
    "functions": HDR
    + "def f(a, b):\n    return a * b + 1\n\ndef g(a):\n    d0.Setting = f(a, 2) + f(a, 3)\n\nwhile True:\n    yield_()\n    g(d1.Setting)\n",
    "pragmas": HDR
    + "# pytrapic: compact, no-append-version, remove_labels\n"
    + "x = d0.Setting\nwhile x < 5:\n    x += 1\nd1.Setting = x\n",
    "pragma_unknown": "#pytrapic: bogus, no_bogus, __class__, no-inline-functions\n" + HDR + "d0.On = 1\n",
    "for_loops": HDR + "for i in range(3, 10, 2):\n    d0.Setting = i\nfor v in [1, 2, 5]:\n    d1.Setting = v\n",
    "const_array": HDR + "arr = [10, 20, 30, 40, 50, 60, 70]\ni = d0.Setting\nd1.Setting = arr[i]\n",
    "constexpr_ok": HDR
    + "@constexpr\ndef k(n):\n    return sum(range(n)) * 2\n\nd0.Setting = k(10)\nd1.Setting = k(11)\n",
    "constexpr_print": HDR
    + "@constexpr\ndef k(n):\n    print('hello')\n    return n\n\nd0.Setting = k(3)\n",
    "constexpr_fail": HDR
    + "@constexpr\ndef k(n):\n    return 1 // (n - n)\n\nd0.Setting = k(3)\n",
    "constexpr_stderr": HDR
    + "@constexpr\ndef k(n):\n    import sys\n    sys.stderr.write('warn\\n')\n    return n + 1\n\nd0.Setting = k(3)\n",
    "constexpr_forbidden": HDR + "@constexpr\ndef k(n):\n    return eval('1')\n\nd0.Setting = k(3)\n",
    "emit_code": HDR
    + "@emit_code\ndef gen(n):\n    return ['move r0 %d' % i for i in range(n)]\n\ngen(3)\nd0.Setting = 1\n",
    # errors
    "syntax_error": HDR + "x = = 3\n",
    "syntax_error_indent": "def f():\nreturn 1\n",
    "unsupported_class": HDR + "class A:\n    pass\n",
    "unsupported_lambda": HDR + "f = lambda x: x\n",
    "unsupported_with": HDR + "with open('x') as f:\n    pass\n",
    "undefined_function": HDR + "foo(1)\n",
    "undefined_name": HDR + "d0.Setting = nothing_here\n",
    "recursion": HDR + "def f(n):\n    return f(n - 1)\n\nd0.Setting = f(3)\nd1.Setting = f(4)\n",
    "mutual_recursion": HDR
    + "def a(n):\n    return b(n)\n\ndef b(n):\n    return a(n)\n\nd0.Setting = a(1)\nd1.Setting = b(2)\n",
    "write_builtin": HDR + "r0 = 5\n",
    "reassign_device": HDR + "a = SolarPanel(d0)\na = SolarPanel(d1)\n",
    "too_many_registers": HDR
    + "".join(f"v{i} = d0.Setting + {i}\n" for i in range(20))
    + "d1.Setting = "
    + " + ".join(f"v{i}" for i in range(20))
    + "\n",
    "bad_decorator": HDR + "@staticmethod\ndef f():\n    pass\n",
    "kwargs_call": HDR + "def f(a):\n    return a\nkw = 1\nd0.Setting = f(**kw)\n",
    "lua_like": "-- not python\nlocal x = 1\n",
    "nul_byte": "x = 1\x00\n",
    "unicode_seps": HDR + "x = d0.Setting\x0c\nd1.Setting = x\u2028\n",
    "long_line": HDR + "d0.Setting = " + " + ".join(["1"] * 3000) + "\n",
    "main_guard": HDR + "if __name__ == '__main__':\n    d0.On = 1\nelse:\n    d0.On = 0\n",
}

NONTERMINATING = HDR + "@constexpr\ndef spin(n):\n    while True:\n        pass\n\nd0.Setting = spin(1)\n"

OPTION_SETS = [
    None,
    {},
    {"compact": True, "remove_labels": True, "append_version": False},
    dict(original_code_as_comment=True, generated_comments=True),
    dict(inline_functions=False, use_push_pop_functions=True),
    dict(inline_functions=False, tail_call_optimization=True, append_version=False),
    dict(compact=True),
    dict(compact=True, inline_functions=False, remove_labels=True, use_push_pop_functions=True),
]


def test_dir():
    root = Path(stationeers_pytrapic.__file__).resolve().parents[2]
    d = root / "test"
    return d if d.is_dir() else None


def load_corpus():
    corpus = dict(INLINE)
    td = test_dir()
    if td is None:
        return corpus
    for f in sorted((td / "cases").glob("*.py")):
        corpus["case:" + f.stem] = f.read_text(encoding="utf-8")
    libs = {f.stem: f.read_text(encoding="utf-8") for f in sorted((td / "mod_libraries").glob("*.py"))}
    for f in sorted((td / "mod_scripts").glob("*.py")):
        src = f.read_text(encoding="utf-8")
        mods = {name: text for name, text in libs.items() if name in src}
        mods[""] = src
        corpus["script:" + f.stem] = mods
    return corpus


def make_options(spec):
    if spec is None:
        return None
    return CompileOptions(**spec)


# --------------------------------------------------------------------------- single call


def snapshot(obj):
    return copy.deepcopy(obj)


def children_left():
    """True if this process still has (zombie or live) child processes."""
    try:
        pid, _ = os.waitpid(-1, os.WNOHANG)
    except ChildProcessError:
        return False
    return True


def call(src, spec, as_dict=False, expect_timeout=False, label=""):
    """compile_code with all the per-call checks; returns the result."""
    for attempt in range(2):
        options = dict(spec) if (as_dict and spec is not None) else make_options(spec)
        opt_before = snapshot(options)
        src_before = snapshot(src)
        t0 = time.monotonic()
        try:
            result = compile_code(src, options)
        except BaseException as e:  # noqa
            check(False, f"{label}: compile_code raised {type(e).__name__}: {e}")
            return {"raised": repr(e)}
        dt = time.monotonic() - t0
        check(dt < 30, f"{label}: took {dt:.1f}s")
        check(options == opt_before, f"{label}: options modified: {opt_before} -> {options}")
        if dataclasses.is_dataclass(options):
            check(
                dataclasses.asdict(options) == dataclasses.asdict(opt_before),
                f"{label}: options fields modified",
            )
        check(src == src_before, f"{label}: sources modified")
        desc = result.get("error", {}).get("description", "") if isinstance(result, dict) else ""
        if "Timeout during evaluating" in desc and not expect_timeout:
            continue  # machine under load: the 1 s helper timeout fired spuriously
        break
    validate(result, src, label)
    return result


def validate(result, src, label):
    check(isinstance(result, dict), f"{label}: result is {type(result)}")
    if not isinstance(result, dict):
        return
    try:
        json.dumps(result)
    except Exception as e:
        check(False, f"{label}: result not JSON serialisable: {e}")
    main = src[""] if isinstance(src, dict) else src
    if "error" in result:
        err = result["error"]
        check("code" not in result, f"{label}: both code and error")
        check(isinstance(err, dict) and isinstance(err.get("description"), str) and err["description"],
              f"{label}: error without description: {err}")
        if isinstance(err, dict) and err.get("line") is not None and "stack_trace" not in err:
            nlines = max(len(main.splitlines()), 1)
            # positions refer to the main module or to one of the libraries
            limit = nlines
            if isinstance(src, dict):
                limit = max(max(len(v.splitlines()), 1) for v in src.values())
            check(isinstance(err["line"], int) and 1 <= err["line"] <= limit + 1,
                  f"{label}: error line {err['line']} outside text of {limit} lines")
    else:
        check("code" in result, f"{label}: neither code nor error: {result}")
        code = result.get("code")
        check(isinstance(code, str), f"{label}: code is {type(code)}")
        if isinstance(code, str) and "num_lines" in result:
            n = len(code.splitlines())
            check(result["num_lines"] == n, f"{label}: num_lines {result['num_lines']} != {n}")
            check(result["num_bytes"] == len(code) + max(n - 1, 0), f"{label}: num_bytes inconsistent")
            check(isinstance(result["num_registers"], int) and 0 <= result["num_registers"] <= 18,
                  f"{label}: num_registers {result['num_registers']}")


# --------------------------------------------------------------------------- fresh process

CHILD = r"""
import json, sys
from stationeers_pytrapic.compiler import CompileOptions, compile_code
job = json.loads(sys.stdin.read())
spec = job["spec"]
for attempt in range(2):
    options = None if spec is None else CompileOptions(**spec)
    r = compile_code(job["src"], options)
    if "Timeout during evaluating" in r.get("error", {}).get("description", "") and not job["expect_timeout"]:
        continue
    break
sys.stdout.write("\n@@RESULT@@" + json.dumps(r))
"""


def fresh(src, spec, expect_timeout=False):
    p = subprocess.run(
        [sys.executable, "-c", CHILD],
        input=json.dumps({"src": src, "spec": spec, "expect_timeout": expect_timeout}),
        capture_output=True,
        text=True,
        timeout=120,
    )
    if p.returncode != 0 or "@@RESULT@@" not in p.stdout:
        check(False, f"fresh process failed: rc={p.returncode} {p.stderr[-500:]}")
        return None
    return json.loads(p.stdout.rsplit("@@RESULT@@", 1)[1])


def inconclusive(r):
    """The 1 s helper budget was exceeded (loaded machine): says nothing about the compiler."""
    return isinstance(r, dict) and "Timeout during evaluating" in r.get("error", {}).get("description", "")


def same(a, b):
    """Equality as seen by a client of the daemon (through JSON)."""
    if inconclusive(a) or inconclusive(b):
        return True
    return json.loads(json.dumps(a)) == json.loads(json.dumps(b))


# --------------------------------------------------------------------------- main


def run_core(extra=None, fresh_samples=5):
    corpus = load_corpus()
    jobs = []
    names = sorted(corpus)
    rnd = random.Random(12345)
    for i, name in enumerate(names):
        # every program with two option sets, chosen deterministically
        for k in (i % len(OPTION_SETS), (i * 3 + 2) % len(OPTION_SETS)):
            jobs.append((name, k))
    jobs = list(dict.fromkeys(jobs))

    # pass 1: in order
    first = {}
    for name, k in jobs:
        first[(name, k)] = call(corpus[name], OPTION_SETS[k], label=f"{name}/opt{k}")

    # sanity: the reference cases that are expected to compile do compile
    ok = sum(1 for r in first.values() if "code" in r)
    bad = sum(1 for r in first.values() if "error" in r)
    check(ok > 20 and bad > 10, f"unexpected ok/error split {ok}/{bad}")
    for name in ("simple", "functions", "constexpr_ok", "constexpr_stderr", "emit_code", "pragmas", "floats", "enums"):
        for (n, k), r in first.items():
            if n == name and not inconclusive(r):
                check("code" in r, f"{name}/opt{k} should compile: {r.get('error', {}).get('description')}")
    for name in ("syntax_error", "unsupported_class", "recursion", "mutual_recursion", "constexpr_fail",
                 "constexpr_forbidden", "undefined_function", "write_builtin", "too_many_registers"):
        for (n, k), r in first.items():
            if n == name:
                check("error" in r, f"{name}/opt{k} should fail")

    # pass 2: shuffled order, options given as dict when possible -> identical results
    shuffled = jobs[:]
    rnd.shuffle(shuffled)
    for name, k in shuffled:
        r = call(corpus[name], OPTION_SETS[k], as_dict=True, label=f"{name}/opt{k}/again")
        check(same(r, first[(name, k)]), f"{name}/opt{k}: result changed when compiled again in another order")

    # pass 3: ping-pong between two option sets on the same source
    for name in ("hash_str", "enums", "functions", "floats", "big_ints", "bool_const"):
        a = call(corpus[name], OPTION_SETS[2], label=f"{name}/pp")
        b = call(corpus[name], OPTION_SETS[3], label=f"{name}/pp")
        for _ in range(2):
            check(same(call(corpus[name], OPTION_SETS[2], label=f"{name}/pp"), a), f"{name}: ping-pong compact changed")
            check(same(call(corpus[name], OPTION_SETS[3], label=f"{name}/pp"), b), f"{name}: ping-pong verbose changed")

    # non-terminating constexpr: reported as an error in bounded time, nothing left behind
    t0 = time.monotonic()
    r = call(NONTERMINATING, OPTION_SETS[1], expect_timeout=True, label="nonterminating")
    dt = time.monotonic() - t0
    check("error" in r and "Timeout" in r["error"].get("description", ""), f"nonterminating constexpr: {r}")
    check(dt < 20, f"nonterminating constexpr took {dt:.1f}s")
    check(not children_left(), "a helper process is left after the non-terminating constexpr")
    # ... and compiling afterwards is unaffected
    for name in ("simple", "constexpr_ok", "hash_str"):
        k = 2
        r = call(corpus[name], OPTION_SETS[k], label=f"{name}/after-timeout")
        rr = call(corpus[name], OPTION_SETS[k], label=f"{name}/after-timeout2")
        check(same(r, rr), f"{name}: differs after timeout")
    check(not children_left(), "a helper process is left at the end")

    # fresh process comparison for a sample
    sample = [j for j in jobs if j[0] in (
        "hash_str", "enums", "floats", "functions", "constexpr_ok", "recursion", "syntax_error", "pragmas",
        "big_ints", "bool_const", "alias", "registers")]
    rnd.shuffle(sample)
    for name, k in sample[:fresh_samples]:
        fr = fresh(corpus[name], OPTION_SETS[k])
        if fr is not None:
            check(same(fr, first[(name, k)]), f"{name}/opt{k}: differs from a fresh process")
    td = test_dir()
    if td is not None:
        for name, k in [j for j in jobs if j[0].startswith("script:")][:2]:
            fr = fresh(corpus[name], OPTION_SETS[k])
            if fr is not None:
                check(same(fr, first[(name, k)]), f"{name}/opt{k}: differs from a fresh process")

    if extra is not None:
        extra(corpus, first)

    if FAILURES:
        print(f"{len(FAILURES)} check(s) failed", file=sys.stderr)
        sys.exit(1)
    print(f"OK ({len(jobs)} jobs, {ok} compiled, {bad} rejected)")
    sys.exit(0)


# --------------------------------------------------------------------------- specific to this rewrite

def extra(corpus, first):
    """Compilations started one after the other from different threads, with alternating
    modes, must all see their own mode; nothing (lock, mode) may be left behind by a
    compilation, whether it succeeded or failed."""
    import threading
    from concurrent.futures import ThreadPoolExecutor

    from stationeers_pytrapic import compiler, utils

    compact, verbose = OPTION_SETS[2], OPTION_SETS[3]
    names = ("hash_str", "enums", "simple", "functions", "syntax_error", "too_many_registers", "recursion")
    ref = {(n, i): call(corpus[n], o, label=f"{n}/ref") for n in names for i, o in enumerate((compact, verbose))}

    def lock_is_free():
        lock = getattr(compiler, "_compile_lock", None)
        if lock is None:
            return True
        box = []

        def probe():
            got = lock.acquire(blocking=False)
            if got:
                lock.release()
            box.append(got)

        t = threading.Thread(target=probe)
        t.start()
        t.join(30)
        return bool(box and box[0])

    # one compilation at a time, each on a different thread of a pool
    with ThreadPoolExecutor(max_workers=4) as pool:
        for rounds in range(2):
            for n in names:
                for i, o in enumerate((compact, verbose)):
                    fut = pool.submit(call, corpus[n], o, False, False, f"{n}/pool")
                    r = fut.result(timeout=120)
                    check(same(r, ref[(n, i)]), f"{n}/{i}: differs on a pool thread")
                    check(lock_is_free(), f"{n}/{i}: compile lock still held after the call returned")
                    # and directly afterwards on the main thread with the other mode
                    j = 1 - i
                    check(same(call(corpus[n], (compact, verbose)[j], label=f"{n}/main"), ref[(n, j)]),
                          f"{n}/{j}: differs on the main thread after a pool thread compiled")

    # the mode found before a call does not influence the call
    for m in (utils.OutputMode.NUMERIC, utils.OutputMode.COMPACT, utils.OutputMode.VERBOSE):
        utils.set_output_mode(m)
        for n in ("hash_str", "enums"):
            for i, o in enumerate((compact, verbose)):
                check(same(call(corpus[n], o, label=f"{n}/premode"), ref[(n, i)]),
                      f"{n}/{i}: depends on the mode set before the call ({m!r})")
    check(lock_is_free(), "compile lock held at the end")

    # a compilation that raises out of compile_code (bytes are not accepted as source)
    # must not keep the lock either
    try:
        compile_code(b"x = 1  # pytrapic: compact", CompileOptions())
    except Exception:
        pass
    check(lock_is_free(), "compile lock held after compile_code raised")
    check(same(call(corpus["hash_str"], verbose, label="after-raise"), ref[("hash_str", 1)]), "changed after a raising call")


if __name__ == "__main__":
    run_core(extra)
