#!/usr/bin/env python
"""Self-check for the compile daemon (stationeers_pytrapic.mod_daemon).

Run as:  PYTHONPATH=<worktree>/src /venv/bin/python check.py

Starts the daemon as a subprocess and drives it through varied sessions.
For each session it checks that
  * stdout holds exactly one line per non-blank request line (up to EXIT),
  * every line is base64(JSON object), in request order,
  * nothing else reaches stdout,
  * the daemon exits with status 0 on EXIT / end of input.
Exits 0 if every session behaves, 1 otherwise.
"""
import base64
import json
import os
import subprocess
import sys
import tempfile
import threading
import time

PY = sys.executable
CMD = [PY, "-m", "stationeers_pytrapic.mod_daemon"]
TIMEOUT = 180

failures = []


def enc(obj):
    return base64.b64encode(json.dumps(obj).encode("utf-8"))


def req(src, **options):
    msg = {"action": "compile", "code": {"": src}}
    if options:
        msg["options"] = options
    return enc(msg)


def bad_action(tag):
    return enc({"action": tag, "code": {"": "x = 1\n"}})


GOOD = "from stationeers_pytrapic.symbols import *\nx = 1\nwhile True:\n    yield_()\n    x = x + 1\n"
SYNTAX = "def (:\n"
CONSTEXPR = (
    "from stationeers_pytrapic.symbols import *\n"
    "@constexpr\n"
    "def f(a):\n"
    "    return a * 3 + 1\n"
    "x = f(4)\n"
    "while True:\n"
    "    yield_()\n"
    "    x = x + 1\n"
)
CONSTEXPR_PRINTS = (
    "from stationeers_pytrapic.symbols import *\n"
    "@constexpr\n"
    "def f(a):\n"
    "    import sys, os\n"
    "    sys.stderr.write('helper noise on stderr\\n')\n"
    "    os.write(2, b'raw helper noise\\n')\n"
    "    return a * 3 + 2\n"
    "x = f(5)\n"
    "while True:\n"
    "    yield_()\n"
    "    x = x + 1\n"
)
CONSTEXPR_HANG = (
    "from stationeers_pytrapic.symbols import *\n"
    "@constexpr\n"
    "def f(a):\n"
    "    while True:\n"
    "        pass\n"
    "x = f(6)\n"
    "while True:\n"
    "    yield_()\n"
    "    x = x + 1\n"
)
CONSTEXPR_FAIL = (
    "from stationeers_pytrapic.symbols import *\n"
    "@constexpr\n"
    "def f(a):\n"
    "    raise RuntimeError('boom')\n"
    "x = f(7)\n"
)


def decode_lines(out, name):
    """Split daemon stdout into decoded JSON objects; record format violations."""
    objs = []
    if out and not out.endswith(b"\n"):
        failures.append(f"{name}: stdout does not end with a newline: {out[-40:]!r}")
    lines = out.split(b"\n")
    if lines and lines[-1] == b"":
        lines.pop()
    for i, ln in enumerate(lines):
        try:
            obj = json.loads(base64.b64decode(ln, validate=True).decode("utf-8"))
        except Exception as e:  # noqa
            failures.append(f"{name}: stdout line {i} is not base64-JSON ({e}): {ln[:60]!r}")
            continue
        if not isinstance(obj, dict):
            failures.append(f"{name}: stdout line {i} is not a JSON object")
            continue
        objs.append(obj)
    return objs


def run(name, data, expect, env=None, stdin_file=False, check=None):
    """Feed `data` to a fresh daemon, close stdin, collect everything.

    expect: number of reply lines expected.
    check: optional callable(list_of_objects) -> error string or None.
    """
    e = dict(os.environ)
    if env:
        e.update(env)
    try:
        if stdin_file:
            with tempfile.TemporaryFile() as f:
                f.write(data)
                f.seek(0)
                p = subprocess.run(CMD, stdin=f, stdout=subprocess.PIPE, stderr=subprocess.PIPE, env=e, timeout=TIMEOUT)
        else:
            p = subprocess.run(CMD, input=data, stdout=subprocess.PIPE, stderr=subprocess.PIPE, env=e, timeout=TIMEOUT)
    except subprocess.TimeoutExpired:
        failures.append(f"{name}: daemon did not exit within {TIMEOUT}s")
        return None
    objs = decode_lines(p.stdout, name)
    if p.returncode != 0:
        failures.append(f"{name}: exit status {p.returncode}; stderr tail: {p.stderr[-300:]!r}")
    if len(objs) != expect or p.stdout.count(b"\n") != expect:
        failures.append(f"{name}: expected {expect} reply lines, got {p.stdout.count(bytes([10]))} ({len(objs)} valid)")
    elif check is not None:
        msg = check(objs)
        if msg:
            failures.append(f"{name}: {msg}")
    print(f"  {name}: {len(objs)} replies, rc={p.returncode}")
    return objs


def is_ok(o):
    return "error" not in o and "code" in o


def is_ok_or_busy(o):
    # the constexpr helper has a hard 1 s wall-clock limit: tolerate its timeout on a loaded machine
    return is_ok(o) or "Timeout during evaluating constexpr" in json.dumps(o)


def is_err(o):
    return "error" in o


def action_order(tags):
    def chk(objs):
        got = [o.get("error") for o in objs]
        want = [f"Invalid action '{t}'" for t in tags]
        if got != want:
            return f"replies out of order or wrong: {got[:5]}... vs {want[:5]}..."
    return chk


def all_of(*preds):
    def chk(objs):
        for i, (o, p) in enumerate(zip(objs, preds)):
            if not p(o):
                return f"reply {i} fails {p.__name__}: {str(o)[:200]}"
    return chk


def lockstep(name, requests, expect_preds, terminator=b"\n", finish=b"EXIT\n"):
    """Interactive session: send one request, wait for its reply, send the next."""
    p = subprocess.Popen(CMD, stdin=subprocess.PIPE, stdout=subprocess.PIPE, stderr=subprocess.PIPE, bufsize=0)
    err_chunks = []
    t = threading.Thread(target=lambda: err_chunks.append(p.stderr.read()), daemon=True)
    t.start()
    result = []

    def readline_with_timeout():
        box = []
        th = threading.Thread(target=lambda: box.append(p.stdout.readline()), daemon=True)
        th.start()
        th.join(TIMEOUT)
        if th.is_alive() or not box:
            return None
        return box[0]

    try:
        for i, r in enumerate(requests):
            p.stdin.write(r + terminator)
            p.stdin.flush()
            ln = readline_with_timeout()
            if not ln:
                failures.append(f"{name}: no reply to request {i} in lock-step mode")
                p.kill()
                return
            objs = decode_lines(ln, name)
            if len(objs) != 1:
                failures.append(f"{name}: reply {i} malformed")
            else:
                result.append(objs[0])
                if not expect_preds[i](objs[0]):
                    failures.append(f"{name}: reply {i} fails {expect_preds[i].__name__}: {str(objs[0])[:200]}")
        if finish is not None:
            p.stdin.write(finish)
            p.stdin.flush()
            try:
                p.wait(TIMEOUT)
            except subprocess.TimeoutExpired:
                failures.append(f"{name}: daemon did not exit after {finish!r}")
                p.kill()
            # stdin still open: daemon must have left because of EXIT alone
            p.stdin.close()
        else:
            p.stdin.close()
            try:
                p.wait(TIMEOUT)
            except subprocess.TimeoutExpired:
                failures.append(f"{name}: daemon did not exit after EOF")
                p.kill()
        rest = p.stdout.read()
        if rest:
            failures.append(f"{name}: extra stdout after the last reply: {rest[:80]!r}")
        if p.returncode != 0:
            failures.append(f"{name}: exit status {p.returncode}")
    finally:
        if p.poll() is None:
            p.kill()
        t.join(5)
    print(f"  {name}: {len(result)} replies, rc={p.returncode}")


def main():
    t0 = time.time()
    good = req(GOOD)

    # 1. nothing at all / only EXIT / blank lines
    run("eof-only", b"", 0)
    run("exit-only", b"EXIT\n", 0)
    run("blank-lines", b"\n\n   \n\t\n\r\n", 0)
    run("exit-crlf-padded", b"  EXIT \r\n" + good + b"\n", 0)

    # 2. a valid request, LF / CRLF / no trailing newline / compact option
    run("one-valid", good + b"\n", 1, check=all_of(is_ok))
    run("one-valid-crlf", good + b"\r\n", 1, check=all_of(is_ok))
    run("one-valid-no-newline", good, 1, check=all_of(is_ok))
    run("valid-compact", req(GOOD, compact=True) + b"\n" + req(GOOD, compact=False) + b"\n", 2, check=all_of(is_ok, is_ok))
    run("padded-request", b"   " + good + b" \t \n", 1, check=all_of(is_ok))

    # 3. malformed requests of every kind, followed by a valid one
    malformed = [
        b"!!!! not base64 !!!!",
        b"QUJD",  # 'ABC' - not JSON
        b"QUJ",  # bad padding
        base64.b64encode(b"\xff\xfe\x00 not utf8"),
        enc([1, 2, 3]),
        enc("a string"),
        enc(None),
        enc(42),
        enc({}),
        enc({"action": "decompile"}),
        enc({"action": "compile"}),
        enc({"action": "compile", "code": None}),
        enc({"action": "compile", "code": ["x=1"]}),
        enc({"action": "compile", "code": {}}),
        enc({"action": "compile", "code": {"": 17}}),
        enc({"action": "compile", "code": {"": "x=1\n"}, "options": {"no_such_option": 1}}),
        enc({"action": "compile", "code": {"": "x=1\n"}, "options": None}),
        enc({"action": "compile", "code": {"": "x=1\n"}, "options": [1]}),
        req(SYNTAX),
        req("x = undefined_name_zzz + 1\n"),
        req("import os\nos.system('echo hi')\n"),
        req("print('hello on stdout')\n"),
        b"{\"action\": \"compile\"}",  # raw JSON, not base64
        "äöü€".encode("utf-8"),
    ]
    data = b"\n".join(malformed) + b"\n" + good + b"\n"
    n = len(malformed)

    def chk_malformed(objs):
        for i in range(18):
            if not is_err(objs[i]):
                return f"malformed request {i} did not give an error object: {str(objs[i])[:120]}"
        if objs[9].get("error") != "Invalid action 'decompile'":
            return f"unknown action reply wrong: {objs[9]}"
        if objs[10].get("error") != "No code provided":
            return f"missing code reply wrong: {objs[10]}"
        if not is_ok(objs[-1]):
            return "valid request after malformed ones failed"

    run("malformed-then-valid", data, n + 1, check=chk_malformed)
    run("malformed-crlf-blank-mix", b"\r\n\r\n".join(malformed) + b"\r\n\r\n" + good, n + 1, check=chk_malformed)

    # 4. pipelining: many requests in one write, order must be preserved
    tags = [f"act{i}" for i in range(200)]
    run("pipelined-200", b"".join(bad_action(t) + b"\n" for t in tags), 200, check=action_order(tags))
    run("pipelined-crlf", b"".join(bad_action(t) + b"\r\n" for t in tags[:50]), 50, check=action_order(tags[:50]))
    # on POSIX the daemon's stdin splits on LF only: a lone CR does not end a request
    run("lone-cr-is-not-a-terminator", b"".join(bad_action(t) + b"\r" for t in tags[:20]), 1)
    run("mixed-terminators", bad_action("a") + b"\r" + bad_action("b") + b"\n\r" + bad_action("c") + b"\r\n\n" + bad_action("d"), 3,
        check=lambda o: None if [x.get("error") for x in o[1:]] == ["Invalid action 'c'", "Invalid action 'd'"] else f"wrong replies {o}")
    mix = []
    for i in range(6):
        mix.append(good)
        mix.append(bad_action(f"m{i}"))
    run("pipelined-compiles", b"\n".join(mix) + b"\n", 12, check=all_of(*([is_ok, is_err] * 6)))

    # 5. EXIT in the middle: later data is ignored
    run("exit-midway", bad_action("x") + b"\nEXIT\n" + bad_action("y") + b"\n" + good + b"\n", 1, check=action_order(["x"]))
    run("exit-no-newline", bad_action("x") + b"\nEXIT", 1, check=action_order(["x"]))
    run("exit-lowercase-is-a-request", b"exit\n", 1, check=all_of(is_err))
    run("exit-inside-is-a-request", b"EXITX\nEXIT\n", 1, check=all_of(is_err))

    # 6. long lines
    big_src = GOOD + "# " + "x" * (3 * 1024 * 1024) + "\n"
    run("3MB-valid-request", req(big_src) + b"\n" + bad_action("after"), 2,
        check=lambda o: None if is_ok(o[0]) and o[1].get("error") == "Invalid action 'after'" else "long request mishandled")
    run("5MB-garbage-line", b"A" * (5 * 1024 * 1024 + 1) + b"\n" + bad_action("after") + b"\n", 2,
        check=lambda o: None if is_err(o[0]) and o[1].get("error") == "Invalid action 'after'" else "long garbage mishandled")
    run("64k-boundaries", b"".join(b"B" * k + b"\n" for k in (65535, 65536, 65537, 8191, 8192, 8193)), 6)

    # 7. constexpr helper: works, is noisy, fails, hangs; daemon carries on
    def chk_helper(objs):
        if not is_ok_or_busy(objs[0]):
            return f"constexpr compile failed: {str(objs[0])[:300]}"
        if not is_ok_or_busy(objs[1]):
            return f"noisy constexpr compile failed: {str(objs[1])[:300]}"
        if "boom" not in json.dumps(objs[2]) and not (is_err(objs[2]) and is_ok_or_busy(objs[2])):
            return f"failing constexpr not reported: {str(objs[2])[:300]}"
        if "Timeout" not in json.dumps(objs[3]):
            return f"hanging constexpr not reported: {str(objs[3])[:300]}"
        if not is_ok(objs[4]) or not is_ok_or_busy(objs[5]):
            return "daemon did not recover after helper trouble"
        if is_ok(objs[0]) and is_ok(objs[5]) and objs[0] != objs[5]:
            return "repeated compilation gives a different result"

    run("helper-cases", b"\n".join([req(CONSTEXPR), req(CONSTEXPR_PRINTS), req(CONSTEXPR_FAIL), req(CONSTEXPR_HANG), good, req(CONSTEXPR)]) + b"\n", 6, check=chk_helper)

    # 8. stdin variants
    run("stdin-regular-file", bad_action("f1") + b"\n" + good + b"\r\n" + bad_action("f2"), 3, stdin_file=True,
        check=lambda o: None if is_err(o[0]) and is_ok(o[1]) and is_err(o[2]) else "file stdin mishandled")
    run("stdin-empty-file", b"", 0, stdin_file=True)
    p = subprocess.run(CMD, stdin=subprocess.DEVNULL, stdout=subprocess.PIPE, stderr=subprocess.PIPE, timeout=TIMEOUT)
    if p.returncode != 0 or p.stdout:
        failures.append(f"stdin-devnull: rc={p.returncode} stdout={p.stdout[:50]!r}")

    # 9. non-UTF-8 bytes on stdin (C locale => surrogateescape in the stock daemon)
    run("non-utf8-bytes", b"\xff\xfe\xfa\n" + bad_action("z") + b"\n", 2, env={"LC_ALL": "C", "LANG": "C", "PYTHONUTF8": "0"},
        check=lambda o: None if is_err(o[0]) and o[1].get("error") == "Invalid action 'z'" else "bytes mishandled")

    # 10. interactive lock-step sessions (no read-ahead may be needed to get an answer)
    lockstep("lockstep-lf-exit", [good, bad_action("q"), b"@@@", req(CONSTEXPR), good], [is_ok, is_err, is_err, is_ok_or_busy, is_ok])
    lockstep("lockstep-crlf-eof", [bad_action("q"), good, enc([])], [is_err, is_ok, is_err], terminator=b"\r\n", finish=None)
    lockstep("lockstep-exit-crlf", [good], [is_ok], finish=b"EXIT\r\n")

    print(f"{len(failures)} failure(s) in {time.time() - t0:.1f}s")
    for f in failures:
        print("FAIL:", f)
    return 1 if failures else 0


if __name__ == "__main__":
    sys.exit(main())
