"""Self-check for compile_code and its constexpr helper handling.

Run as:  PYTHONPATH=<worktree>/src /venv/bin/python check.py
Exits 0 when everything holds, 1 otherwise.  Works on the clean tree and with the patch.
"""
import copy
import dataclasses
import json
import os
import random
import subprocess
import sys
import tempfile
import time

# The constexpr helper is a fresh interpreter that has to import the big generated symbol
# tables within the time limit.  Where byte code caching is switched off (or the source
# tree is read-only) that alone can exceed the limit on a busy machine, so give the helper
# processes (they inherit os.environ) a private byte code cache outside the source tree.
os.environ.pop("PYTHONDONTWRITEBYTECODE", None)
if "PYTHONPYCACHEPREFIX" not in os.environ:
    os.environ["PYTHONPYCACHEPREFIX"] = tempfile.mkdtemp(prefix="legitcheck-pyc")
    subprocess.run(
        [sys.executable, "-c", "from stationeers_pytrapic.symbols import *\nfrom stationeers_pytrapic.types_generated import *"],
        stdout=subprocess.DEVNULL, stderr=subprocess.DEVNULL, timeout=300,
    )

from stationeers_pytrapic import compiler as _compiler
from stationeers_pytrapic import utils as _utils
from stationeers_pytrapic.compiler import CompileOptions, compile_code

HDR = "from stationeers_pytrapic.symbols import *\n"
FAILURES = []
PER_CALL_BOUND = 20.0  # generous: the machine may be loaded


def check(cond, what):
    if not cond:
        FAILURES.append(what)
        print("FAIL:", what)


def prog(body, call="f(1)", extra=""):
    return (
        HDR
        + "@constexpr\ndef f(x):\n"
        + "".join("    " + l + "\n" for l in body.splitlines())
        + f"\n{extra}d = Stack(d0)\nd[0] = {call}\n"
    )


def timed(src, options=None):
    t0 = time.monotonic()
    try:
        res = compile_code(src, options)
    except BaseException as e:  # noqa
        check(False, f"compile_code raised {type(e).__name__}: {e}")
        res = {"error": {"description": "RAISED"}}
    dt = time.monotonic() - t0
    check(dt < PER_CALL_BOUND, f"compile_code took {dt:.1f}s")
    return res


def is_spurious_timeout(res):
    return "Timeout during evaluating constexpr" in res.get("error", {}).get(
        "description", ""
    )


def compile_ok(src, options=None, tries=12):
    """compile something whose helper terminates quickly; tolerate load-induced timeouts"""
    for _ in range(tries):
        res = timed(src, options)
        if not is_spurious_timeout(res):
            return res
        time.sleep(0.5)
    return res


def verdict_shape(res, src_text, what):
    check(isinstance(res, dict), f"{what}: not a dict")
    if not isinstance(res, dict):
        return
    check(("code" in res) != ("error" in res), f"{what}: needs exactly one of code/error")
    if "code" in res:
        code = res["code"]
        check(isinstance(code, str), f"{what}: code not str")
        n = len(code.splitlines())
        check(res.get("num_lines") == n, f"{what}: num_lines inconsistent")
        check(res.get("num_bytes") == len(code) + max(n - 1, 0), f"{what}: num_bytes")
        check(isinstance(res.get("num_registers"), int), f"{what}: num_registers")
    else:
        err = res["error"]
        check(isinstance(err, dict), f"{what}: error not a dict")
        check(
            isinstance(err.get("description"), str) and err["description"] != "",
            f"{what}: error has no description",
        )
        if "line" in err and err["line"] is not None:
            nlines = max(len(src_text.splitlines()), 1)
            check(1 <= err["line"] <= nlines + 1, f"{what}: line {err['line']} outside text")


def alive(pid):
    try:
        with open(f"/proc/{pid}/stat") as f:
            stat = f.read()
    except OSError:
        return False
    state = stat.rsplit(")", 1)[1].split()[0]
    return state not in ("Z", "X")


def read_pids(path):
    with open(path) as f:
        return [int(x) for x in f.read().split()]


def wait_dead(pids, timeout=3.0):
    end = time.monotonic() + timeout
    while time.monotonic() < end:
        if not any(alive(p) for p in pids):
            return True
        time.sleep(0.05)
    return not any(alive(p) for p in pids)


def norm(res):
    return json.dumps(res, sort_keys=True)


# ---------------------------------------------------------------- A: verdicts
def section_verdicts():
    cases = {
        "empty": ("", "code"),
        "plain": (HDR + "d = Stack(d0)\nd[0] = 5\n", "code"),
        "crlf": (HDR.replace("\n", "\r\n") + "d = Stack(d0)\r\nd[0] = 5\r\n", "code"),
        "no-final-newline": (HDR + "d = Stack(d0)\nd[0] = 5", "code"),
        "syntax": ("def f(:\n", "error"),
        "nul": ("x = 1\x00\n", "error"),
        "unsupported": (HDR + "import os\nwith open('x') as f:\n    pass\n", "error"),
        "recursion": (HDR + "def g(x):\n    return g(x)\ng(1)\n", "error"),
        "long-line": (HDR + "x = '" + "a" * 2_000_000 + "'\n", None),
        "ok-constexpr": (prog("return x + 41"), "code"),
        "list-constexpr": (prog("return [1, 2, 3]"), "code"),
        "raise": (prog("raise ValueError('boom')"), "error"),
        "print": (prog("print('hello')\nreturn 3"), "error"),
        "exit3": (prog("import sys\nsys.exit(3)"), "error"),
        "exit0": (prog("import sys\nsys.exit(0)"), "error"),
        "notjson": (prog("return {1, 2}"), "error"),
        "badutf8": (
            prog("import sys\nsys.stdout.buffer.write(b'\\xff\\xfe')\nsys.stdout.flush()\nreturn 1"),
            "error",
        ),
        "big-output": (
            prog(
                "import sys\nsys.stderr.write('e' * 400000)\nsys.stdout.write('o' * 400000)\nraise SystemExit(1)"
            ),
            "error",
        ),
        "big-result": (prog("return list(range(150000))"), "code"),
        "stderr-noise-ok": (
            prog("import sys\nsys.stderr.write('warning: something\\n')\nreturn 7"),
            "code",
        ),
        "reads-stdin": (
            prog("import sys\nreturn len(sys.stdin.read())"),
            "code",
        ),
    }
    for name, (src, kind) in cases.items():
        res = compile_ok(src, CompileOptions(append_version=False))
        verdict_shape(res, src, name)
        if kind is not None:
            check(kind in res, f"{name}: expected '{kind}', got {str(res)[:300]}")
        if name == "ok-constexpr":
            check(res.get("code") == "put d0 0 42", f"{name}: {res}")
        if name == "big-result":
            check(res.get("code", "").endswith("149998, 149999]"), f"{name}: {str(res)[-100:]}")
        if name == "stderr-noise-ok":
            check(res.get("code") == "put d0 0 7", f"{name}: {res}")
        if name == "reads-stdin":
            check(res.get("code") == "put d0 0 0", f"{name}: {res}")
        if name == "raise":
            d = res.get("error", {}).get("description", "")
            check("Error during evaluating constexpr function call f(1)" in d, name)
            check("ValueError: boom" in d, name + " stderr missing")
            check(res["error"].get("line") == 7, name + " position")
        if name == "print":
            d = res.get("error", {}).get("description", "")
            check("Invalid JSON result in constexpr function: hello" in d, f"{name}: {d[:200]}")
        if name == "big-output":
            d = res.get("error", {}).get("description", "")
            check(d.count("e") >= 400000, f"{name}: stderr truncated")


# ------------------------------------------------------ B: timeout and cleanup
def section_cleanup():
    tmp = tempfile.mkdtemp(prefix="legitcheck")
    # 1. plain busy loop
    pidfile = os.path.join(tmp, "p1")
    src = prog(
        f"import os, pathlib\npathlib.Path({pidfile!r}).write_text(str(os.getpid()))\nwhile True:\n    pass"
    )
    t0 = time.monotonic()
    res = timed(src)
    dt = time.monotonic() - t0
    verdict_shape(res, src, "loop")
    check(is_spurious_timeout(res), f"loop: expected timeout error, got {str(res)[:300]}")
    check(res.get("error", {}).get("line") == 10, "loop: position")
    check(dt < 12, f"loop: took {dt:.1f}s")
    if os.path.exists(pidfile):
        pids = read_pids(pidfile)
        check(wait_dead(pids), f"loop: helper still running {pids}")

    # 2. sleeping loop that ignores SIGTERM and has a grandchild holding the pipes
    pidfile = os.path.join(tmp, "p2")
    body = (
        "import os, signal, subprocess, time, pathlib\n"
        "signal.signal(signal.SIGTERM, signal.SIG_IGN)\n"
        "p = subprocess.Popen(['sleep', '120'])\n"
        f"pathlib.Path({pidfile!r}).write_text(f'{{os.getpid()}} {{p.pid}}')\n"
        "while True:\n    time.sleep(0.05)"
    )
    src = prog(body)
    res = timed(src)
    verdict_shape(res, src, "grandchild-loop")
    check(is_spurious_timeout(res), f"grandchild-loop: {str(res)[:300]}")
    if os.path.exists(pidfile):
        pids = read_pids(pidfile)
        check(len(pids) == 2, "grandchild-loop: pidfile incomplete")
        check(wait_dead(pids), f"grandchild-loop: still running {pids}")
    else:
        print("note: grandchild-loop helper never got as far as writing its pid file")

    # 3. helper returns but its child keeps the pipes open: any verdict, nothing left behind
    pidfile = os.path.join(tmp, "p3")
    body = (
        "import os, subprocess, pathlib\n"
        "if not os.path.exists(%r):\n"
        "    p = subprocess.Popen(['sleep', '120'])\n"
        "    pathlib.Path(%r).write_text(str(p.pid))\n"
        "return 5" % (pidfile, pidfile)
    )
    src = prog(body)
    res = timed(src)
    verdict_shape(res, src, "pipe-holder")
    if os.path.exists(pidfile):
        pids = read_pids(pidfile)
        check(wait_dead(pids), f"pipe-holder: still running {pids}")

    # 4. the timeout is not cached: same verdict again, and again bounded
    src = prog("while True:\n    pass")
    r1 = timed(src)
    r2 = timed(src)
    check(is_spurious_timeout(r1) and norm(r1) == norm(r2), "loop twice differs")

    # 4b. neither file descriptors nor threads pile up
    import threading

    def nfds():
        return len(os.listdir("/proc/self/fd"))

    timed(prog("return 1", call="f(100)"))
    timed(prog("while True:\n    pass", call="f(101)"))
    fds0, thr0 = nfds(), threading.active_count()
    for i in range(4):
        compile_ok(prog("return x", call=f"f({200 + i})"))
        timed(prog("raise ValueError(x)", call=f"f({300 + i})"))
    timed(prog("while True:\n    pass", call="f(102)"))
    time.sleep(0.3)
    check(nfds() <= fds0, f"file descriptors leaked: {fds0} -> {nfds()}")
    check(threading.active_count() <= thr0, f"threads leaked: {thr0} -> {threading.active_count()}")

    # 5. no children of ours left (zombies included: the helper must have been reaped)
    me = os.getpid()
    kids = []
    for d in os.listdir("/proc"):
        if d.isdigit():
            try:
                with open(f"/proc/{d}/stat") as f:
                    rest = f.read().rsplit(")", 1)[1].split()
                if int(rest[1]) == me:
                    kids.append((int(d), rest[0]))
            except OSError:
                pass
    check(not kids, f"child processes left behind: {kids}")


# ----------------------------------- C: independence from history, fresh process
SEQ_SOURCES = {
    "a": HDR + "d = Stack(d0)\nd[0] = HASH('ItemSteelIngot')\n",
    "b": prog("return x * 3", call="f(14)"),
    "c": prog("raise KeyError(x)", call="f(2)"),
    "d": HDR + "# pytrapic: compact, no-append-version\nl = Autolathe(d0)\nl.On = True\n",
    "e": "def f(:\n",
    "f": HDR + "x = LogicType.Setting\nd = Stack(d0)\nd[0] = x\n",
}
SEQ_OPTIONS = {
    "default": {},
    "compact": dict(compact=True, remove_labels=True, append_version=False),
    "verbose": dict(original_code_as_comment=True, generated_comments=True, inline_functions=False),
}


def run_sequence(order):
    out = {}
    for s, o in order:
        res = compile_ok(SEQ_SOURCES[s], CompileOptions(**SEQ_OPTIONS[o]))
        out.setdefault(f"{s}/{o}", []).append(norm(res))
    return out


def section_history():
    pairs = [(s, o) for s in SEQ_SOURCES for o in SEQ_OPTIONS]
    rng = random.Random(1234)
    first = run_sequence(pairs)
    results = {k: v[0] for k, v in first.items()}
    for rnd in range(3):
        order = pairs * 2
        rng.shuffle(order)
        got = run_sequence(order)
        for k, vs in got.items():
            for v in vs:
                if v != results[k] and "Timeout during" not in v:
                    check(False, f"history: {k} changed in round {rnd}:\n  {results[k][:300]}\n  {v[:300]}")

    # fresh process, reverse order
    script = (
        "import json,sys\n"
        "import check as c\n"
        "pairs=[(s,o) for s in c.SEQ_SOURCES for o in c.SEQ_OPTIONS][::-1]\n"
        "r=c.run_sequence(pairs)\n"
        "sys.stdout.write(json.dumps({k:v[0] for k,v in r.items()}))\n"
    )
    env = dict(os.environ)
    here = os.path.dirname(os.path.abspath(__file__))
    env["PYTHONPATH"] = here + os.pathsep + env.get("PYTHONPATH", "")
    for attempt in range(3):
        p = subprocess.run(
            [sys.executable, "-c", script], env=env, capture_output=True, timeout=600
        )
        if p.returncode != 0:
            check(False, "fresh process failed: " + p.stderr.decode()[-500:])
            return
        fresh = json.loads(p.stdout.decode())
        bad = [k for k in results if fresh.get(k) != results[k]]
        if not bad or not any("Timeout during" in fresh.get(k, "") for k in bad):
            break
    for k in bad:
        check(False, f"fresh process differs for {k}:\n  {results[k][:300]}\n  {fresh.get(k, '')[:300]}")


# ------------------------------------------------- D: options and source mapping
def reference_pragmas(text):
    """what the original line-by-line implementation derives from the text"""
    changes = []
    if "pytrapic:" in text:
        for line in text.splitlines():
            if "pytrapic:" not in line:
                continue
            line = line.strip()
            if not line.startswith("#"):
                continue
            tokens = line.split("#", 1)
            if len(tokens) < 2:
                continue
            tokens = tokens[1].split("pytrapic:", 1)
            if len(tokens) < 2:
                continue
            tokens = tokens[1].strip().split(",")
            for tag in tokens:
                tag = tag.strip().replace("-", "_")
                value = not tag.startswith("no_")
                if not value:
                    tag = tag[3:].strip()
                if tag in CompileOptions.__dataclass_fields__:
                    changes.append((tag, value))
    return changes


class _Spy:
    seen = None

    def __init__(self, options):
        _Spy.seen = options

    def compile(self, src):
        return {"code": "", "num_lines": 0, "num_registers": 0, "num_bytes": 0}


def effective_options(src, options):
    orig = _compiler.Compiler
    _compiler.Compiler = _Spy
    _Spy.seen = None
    try:
        compile_code(src, options)
    finally:
        _compiler.Compiler = orig
    return _Spy.seen


def section_options():
    fields = [f.name for f in dataclasses.fields(CompileOptions)]
    # caller's objects are left alone
    opts = CompileOptions(append_version=False)
    before = dataclasses.asdict(opts)
    src = HDR + "# pytrapic: compact, no-inline-functions, remove_labels\nd = Stack(d0)\nd[0] = HASH('X')\n"
    mapping = {"": src, "lib": "def helper():\n    pass\n"}
    mapping_before = copy.deepcopy(mapping)
    r1 = timed(mapping, opts)
    check(dataclasses.asdict(opts) == before, "options object modified")
    check(mapping == mapping_before, "source mapping modified")
    odict = {"append_version": False}
    r2 = timed(mapping, odict)
    check(odict == {"append_version": False}, "options dict modified")
    check(norm(r1) == norm(r2), "dict options differ from object options")
    r3 = timed(src, CompileOptions(append_version=False, compact=True, inline_functions=False, remove_labels=True))
    check(norm(r1) == norm(r3), "pragma differs from explicit options")
    # pragma state does not leak into the next compilation
    plain = HDR + "d = Stack(d0)\nd[0] = HASH('X')\n"
    r4 = timed(plain, opts)
    check("HASH" in r4.get("code", ""), f"pragma leaked: {r4}")
    r5 = timed(plain, None)
    r6 = timed(plain, CompileOptions())
    r7 = timed(plain, {})
    check(norm(r5) == norm(r6) == norm(r7), "None / default / {} options differ")

    # the copy handed to the compiler is a distinct object with the same field values
    eff = effective_options(plain, opts)
    check(eff is not opts, "compiler works on the caller's options object")
    check(dataclasses.asdict(eff) == before, "copied options differ")

    # pragma parsing agrees with the original implementation, line for line
    rng = random.Random(99)
    pieces = [
        "#", "# ", " #", "\t#", "##", "x = 1 #", "'''", "pytrapic:", " pytrapic:", "pytrapic: ",
        "pytrapic :", "Pytrapic:", "pytrapic:pytrapic:", ",", " , ", "no-", "no_", "no ", "-", "_",
        "\n", "\r\n", "\r", "\x0c", "\x0b", "\u2028", "\x85", "\x1c", " ", "\t", "\xa0", "\u3000",
        "compact", "inline_functions", "inline-functions", "remove-labels", "append_version",
        "tail_call_optimization", "use-push-pop-functions", "generated_comments",
        "original_code_as_comment", "bogus", "COMPACT", "compact=1", "no-no-compact", "#pytrapic:compact",
        "# pytrapic: no-compact, inline-functions ,remove_labels,,", "# foo pytrapic: compact # bar",
        "   # pytrapic:\tno_ compact", "#pytrapic:no-append-version\r\n", "x = '# pytrapic: compact'",
    ]
    for i in range(1500):
        text = "".join(rng.choice(pieces) for _ in range(rng.randint(1, 14)))
        base = CompileOptions(**{f: rng.random() < 0.5 for f in fields})
        want = dataclasses.asdict(base)
        for tag, value in reference_pragmas(text):
            want[tag] = value
        snapshot = dataclasses.asdict(base)
        for src_form in (text, {"": text, "m": "pass\n"}):
            eff = effective_options(src_form, base)
            got = dataclasses.asdict(eff) if eff is not None else None
            if got != want:
                check(False, f"pragma parsing differs for {text!r}: {got} != {want}")
                return
        if dataclasses.asdict(base) != snapshot:
            check(False, f"options modified by pragmas in {text!r}")
            return


def section_extra():
    """the result cache: hits are real, results are never shared, bounds hold; output mode"""
    opts = CompileOptions(append_version=False)
    # a successful evaluation is remembered: the second compilation does not start a helper
    src = prog("import os\nreturn os.getpid() + x", call="f(0)")
    r1 = compile_ok(src, opts)
    r2 = timed(src, opts)
    check("code" in r1 and norm(r1) == norm(r2), f"cache hit expected: {r1} {r2}")
    # ... for exactly this script only: another argument, another function body -> new evaluation
    r3 = compile_ok(prog("import os\nreturn os.getpid() + x", call="f(1000000)"), opts)
    check("code" in r3 and r3["code"] != r1["code"], "different call shares a cache entry")
    r4 = compile_ok(prog("import os\nreturn os.getpid() + x + 0", call="f(0)"), opts)
    check("code" in r4 and r4["code"] != r1["code"], "different body shares a cache entry")
    # failures are not remembered as successes and vice versa
    bad = prog("raise ValueError(x)", call="f(77)")
    e1 = timed(bad, opts)
    e2 = timed(bad, opts)
    check("error" in e1 and norm(e1) == norm(e2), "failing constexpr not repeatable")
    # list results: the same text every time, also when the first result object was used up
    lst = prog("return [x, x + 1, x + 2]", call="f(5)")
    l1 = compile_ok(lst, opts)
    l2 = timed(lst, opts)
    l3 = timed(lst, CompileOptions(append_version=False, compact=True))
    check(l1.get("code") == "put d0 0 [5, 6, 7]" and norm(l1) == norm(l2), f"list result: {l1} {l2}")
    check(l3.get("code") == l1.get("code"), f"list result compact: {l3}")

    # compact and verbose compilations alternate without influencing each other
    hsrc = HDR + "d = Stack(d0)\nd[0] = HASH('ItemSteelIngot')\nd[1] = LogicType.Setting\n"
    v = timed(hsrc, CompileOptions(append_version=False))
    c = timed(hsrc, CompileOptions(append_version=False, compact=True))
    for i in range(3):
        check(norm(timed(hsrc, CompileOptions(append_version=False))) == norm(v), "verbose changed")
        check(norm(timed("def f(:\n", CompileOptions(compact=bool(i % 2)))) == norm(timed("def f(:\n")), "syntax")
        check(norm(timed(hsrc, CompileOptions(append_version=False, compact=True))) == norm(c), "compact changed")
    check(v != c, "compact has no effect")
    check(_utils._output_mode in (_utils.OutputMode.VERBOSE, _utils.OutputMode.COMPACT), "output mode")

    # white-box part, only where the cache is the bounded class
    cls = getattr(_utils, "_ConstexprCache", None)
    if cls is None:
        return
    cache = cls(max_entries=3, max_chars=100)
    for i in range(5):
        cache.put(f"script {i}", str(i))
    check(len(cache) == 3 and cache.get("script 1") is None and cache.get("script 2") == "2", "lru entries bound")
    cache.put("script 5", "5")  # evicts 3, not the just-used 2
    check(cache.get("script 3") is None and cache.get("script 2") == "2", "lru order")
    cache.put("big", "x" * 60)
    cache.put("big2", "y" * 60)
    check(cache.get("big") is None and cache.get("big2") == "y" * 60, "lru size bound")
    cache.put("huge", "z" * 101)
    check(cache.get("huge") is None and cache.get("big2") is not None, "oversized entry")
    cache.put("big2", "w")
    check(cache.get("big2") == "w" and cache._chars == sum(len(t) for t in cache._entries.values()), "replace")
    cache.put("sur\udc80rogate \ud800", "1")
    check(cache.get("sur\udc80rogate \ud800") == "1" and "sur\udc80rogate \ud800" in cache, "surrogates")
    cache.clear()
    check(len(cache) == 0 and cache._chars == 0, "clear")
    # the module-level cache survives clear() and refills
    _utils._eval_constexpr_cache.clear()
    r5 = compile_ok(src, opts)
    check("code" in r5, "after clear")



def main():
    t0 = time.monotonic()
    section_verdicts()
    section_cleanup()
    section_options()
    section_history()
    section_extra()
    print(f"check finished in {time.monotonic() - t0:.1f}s, {len(FAILURES)} failure(s)")
    sys.exit(1 if FAILURES else 0)


if __name__ == "__main__":
    main()
