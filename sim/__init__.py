"""Deterministic simulation with fault injection for stationeers-pytrapic (see /verif/DESIGN.md)."""
