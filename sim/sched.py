"""The scheduler: who runs next, and when virtual time moves.

The SUT shipped today is one sequential thread; then this module does nothing but advance the clock when that thread
sleeps or waits, exactly as before.  As soon as the SUT starts a thread (threading.Thread, Timer, an executor, an
asyncio loop's run_in_executor) every thread becomes a *real* Python thread that may only run while it holds the baton:
exactly one runs at a time, and every hand-over happens here, at

  * blocking points (lock/condition/event/queue/future waits, Thread.join, time.sleep, waits on helper processes,
    reads from the daemon's stdin, an asyncio loop with nothing ready),
  * the end of a thread,
  * optional pre-emption points (every K interpreter events inside repository code, K from the run spec).

Whenever more than one continuation is possible the next integer of the run spec's `sched` list decides
(option index = value mod number of options; options in the fixed order: runnable threads by id, then ENV = the client
acts on the daemon's pipes, then TIME = every runnable thread is stalled until the next timer expires).  When the list is
exhausted the default is: keep running the current thread, else the lowest runnable id, ENV only when nothing is
runnable, TIME only when nothing else can happen.  Nothing here reads a real clock or a PRNG, so a spec is a replay.

Virtual time moves only when no thread is runnable (discrete-event style): the clock jumps to the earliest wake-up time.
"""
import _thread

from .seams_base import INF, SimDeadlock, SimHang, SimSignal, SimStop

_real_allocate = _thread.allocate_lock
_real_start = _thread.start_new_thread
_real_get_ident = _thread.get_ident


class TState:
    __slots__ = ("tid", "name", "gate", "status", "wake", "on", "timed_out", "stdin", "ident", "daemon")

    def __init__(self, tid, name):
        self.tid, self.name = tid, name
        self.gate = _real_allocate()
        self.gate.acquire()
        self.status = "runnable"  # runnable | blocked | done
        self.wake = None  # virtual time at which a timed wait expires
        self.on = None  # what it waits for
        self.timed_out = False
        self.stdin = False  # blocked waiting for bytes on the daemon's request pipe
        self.ident = None
        self.daemon = False


class Sched:
    def __init__(self, world, plan=None, preempt_every=0):
        self.w = world
        self.plan = list(plan or [])
        self.plan_used = 0
        self.preempt_every = int(preempt_every or 0)
        self._events_since = 0
        self.threads = []
        self.main = self._new_state("main")
        self.main.ident = _real_get_ident()
        self.cur = self.main
        self.multi = False
        self.abort = None  # a simulator signal raised in a non-main thread, or a verdict: delivered to the main thread
        self.session = None  # daemon runs: the client / pipes (ENV)
        self.switches = 0
        self.decisions = 0
        # SIGALRM in virtual time (signal.alarm / setitimer(ITIMER_REAL))
        self.alarm_at = None
        self.alarm_interval = 0.0
        self.alarm_handler = None
        self._in_alarm = False

    # -- threads -------------------------------------------------------------------------------------
    def _new_state(self, name):
        st = TState(len(self.threads), name)
        self.threads.append(st)
        return st

    def me(self):
        ident = _real_get_ident()
        if self.cur.ident == ident:
            return self.cur
        for t in self.threads:
            if t.ident == ident:
                return t
        return self.cur

    def start_thread(self, fn, args, kwargs=None, name="thread"):
        """replacement for _thread.start_new_thread: the new thread exists at once and is runnable, but executes
        nothing until the scheduler hands it the baton"""
        st = self._new_state(name)
        if not self.multi:
            self.multi = True
            self.w.probe("threads-in-use")
            if self.preempt_every and self.w.steps is not None:
                self.w.steps.enable_monitoring()
        self.w.event("sched", "thread-start", st.tid)

        def boot():
            st.gate.acquire()  # wait for the baton
            st.ident = _real_get_ident()
            try:
                fn(*args, **(kwargs or {}))
            except SimSignal as e:  # a simulator verdict raised inside this thread: hand it to the main thread
                if self.abort is None:
                    self.abort = e
            except BaseException:  # noqa - what an uncaught exception does to a raw thread: it ends
                pass
            finally:
                self._thread_done(st)

        ident = _real_start(boot, ())
        return ident

    def _thread_done(self, st):
        st.status = "done"
        self.w.event("sched", "thread-end", st.tid)
        self.notify(("thread", st.tid))
        try:
            nxt = self._pick(st)
        except SimSignal as e:
            if self.abort is None:
                self.abort = e
            nxt = self.main
            if self.main.status != "done":
                self.main.status = "runnable"
        if nxt is not None and nxt is not st:
            self.cur = nxt
            self.switches += 1
            nxt.gate.release()
        # the real thread ends here

    def alive(self, tid):
        return self.threads[tid].status != "done"

    # -- SIGALRM -------------------------------------------------------------------------------------
    def alarm_left(self):
        return 0.0 if self.alarm_at is None else max(self.alarm_at - self.w.clock.now, 1e-6)

    def set_alarm(self, seconds, interval):
        self.alarm_at = None if seconds is None else self.w.clock.now + seconds
        self.alarm_interval = interval
        if self.alarm_at is not None:
            self.w.probe("sigalrm-armed")
            if self.preempt_every and self.w.steps is not None:
                self.w.steps.enable_monitoring()  # so that "the process is descheduled while computing" can happen

    def deliver_alarm(self):
        """called in the main thread at scheduling points: run the SIGALRM handler if the timer has expired"""
        if self.alarm_at is None or self._in_alarm or self.w.clock.now < self.alarm_at:
            return
        if _real_get_ident() != self.main.ident:
            return
        self.alarm_at = (self.w.clock.now + self.alarm_interval) if self.alarm_interval else None
        h = self.alarm_handler
        self.w.event("sched", "sigalrm")
        self.w.probe("sigalrm-delivered")
        if h is None or h == 0:  # SIG_DFL: the process is terminated by the signal
            from .seams_base import SimStop
            s = self.session
            if s is not None:
                s._violate("terminated", "the daemon is killed by SIGALRM (alarm armed, no handler installed)")
            raise SimStop("killed by SIGALRM")
        if h == 1:  # SIG_IGN
            return
        self._in_alarm = True
        try:
            h(14, None)
        finally:
            self._in_alarm = False

    # -- blocking ------------------------------------------------------------------------------------
    def block(self, on=None, timeout=None, stdin=False):
        """the current thread cannot continue until notify(on) or until `timeout` virtual seconds have passed.
        Returns False if the wait timed out."""
        st = self.me()
        if timeout is not None and timeout <= 0:
            return False
        st.status, st.on, st.stdin, st.timed_out = "blocked", on, stdin, False
        st.wake = None if timeout is None else self.w.clock.now + float(timeout)
        if st is self.main and self.alarm_at is not None and (st.wake is None or self.alarm_at < st.wake):
            # a signal interrupts the wait: wake up when the alarm expires, run the handler, then wait on
            remaining_deadline = st.wake
            st.wake = self.alarm_at
            self._switch_from(st)
            self.deliver_alarm()
            if st.timed_out and (remaining_deadline is None or self.w.clock.now < remaining_deadline):
                left = None if remaining_deadline is None else remaining_deadline - self.w.clock.now
                return self.block(on=on, timeout=left, stdin=stdin)
            return not st.timed_out
        self._switch_from(st)
        if st is self.main:
            self.deliver_alarm()
        return not st.timed_out

    def sleep(self, d):
        if d > 0:
            self.block(on=None, timeout=d)

    def wait_for(self, target_fn, timeout, on):
        """block until clock.now >= target_fn() (re-evaluated after every wake-up) or `timeout` has passed.
        -> True if the target time was reached"""
        clock = self.w.clock
        deadline = INF if timeout is None else clock.now + max(float(timeout), 0.0)
        while True:
            target = target_fn()
            now = clock.now
            if target <= now:
                return True
            if deadline <= now:
                return False
            until = min(target, deadline)
            if until == INF:
                if not self.multi:
                    raise SimHang("blocking wait without timeout on something that never happens")
                self.block(on=on, timeout=None)
            else:
                self.block(on=on, timeout=until - now)

    def notify(self, on):
        """wake every thread blocked on `on` (they re-check their condition)"""
        for t in self.threads:
            if t.status == "blocked" and t.on is not None and t.on == on:
                t.status, t.wake, t.on, t.stdin = "runnable", None, None, False

    def wake_stdin(self):
        for t in self.threads:
            if t.status == "blocked" and t.stdin:
                t.status, t.wake, t.on, t.stdin = "runnable", None, None, False

    def yield_point(self, tag="yield"):
        """the current thread could be descheduled here"""
        if not self.multi and self.alarm_at is not None:
            # a sequential program with a pending alarm: it may be descheduled (TIME) until the alarm expires
            if self.plan_used < len(self.plan):
                v = int(self.plan[self.plan_used])
                self.plan_used += 1
                self.decisions += 1
                if v % 2 and self.alarm_at > self.w.clock.now and not self._helper_alive():
                    # the process is descheduled: until the alarm is due (v % 4 == 1) or until just before it, so that
                    # it goes off inside whatever the program does next (v % 4 == 3)
                    gap = self.alarm_at - self.w.clock.now
                    d = gap if v % 4 == 1 else max(gap - 0.5, 0.0)
                    if d > 0:
                        self.w.fault_fired("thread_stall")
                        self.w.event("sched", "stall", round(d, 6))
                        self.w.clock.advance(d)
            self.deliver_alarm()
            return
        if not self.multi:
            return
        st = self.me()
        if st.status != "runnable":
            return
        self._switch_from(st)
        if st is self.main:
            self.deliver_alarm()

    def on_step(self, code):
        """called for interpreter events when pre-emption is on; only inside repository code, so that no lock of the
        interpreter or the standard library is held across the hand-over"""
        if not (self.multi or self.alarm_at is not None) or not self.preempt_every:
            return
        self._events_since += 1
        if self._events_since < self.preempt_every:
            return
        fn = code.co_filename
        if "stationeers_pytrapic" not in fn:
            return
        self._events_since = 0
        self.yield_point("preempt")

    # -- the decision ----------------------------------------------------------------------------------
    def _decide(self, n):
        self.decisions += 1
        if self.plan_used < len(self.plan):
            v = int(self.plan[self.plan_used])
            self.plan_used += 1
            return v % n, True
        return 0, False

    def _helper_alive(self):
        try:
            return bool(self.w.live_helpers())
        except Exception:
            return False

    def _supervising(self):
        """a helper was started for the request that is being worked on: until that request is over the program may be
        running its own deadlines against the helper (also after the helper has ended: a watchdog `join(timeout)` on
        the thread that supervises it), and a stall of the whole process would turn them into timeouts on a tree where
        the property holds (round 4: legit/B-asyncio-loop-thread, `not-recovered` after a 10.8 s stall)"""
        try:
            w = self.w
            cur = getattr(w, "cur_req", None)
            return any(h._req == cur and not getattr(h, "_abandoned", False) for h in w.helpers)
        except Exception:
            return False

    def _env_ready(self):
        s = self.session
        if s is None:
            return False
        if not any(t.status == "blocked" and t.stdin for t in self.threads):
            return False
        return s.client_ready()

    def _pick(self, cur):
        """-> the thread state that runs next (may be `cur`); advances virtual time / lets the client act as needed"""
        clock = self.w.clock
        while True:
            runnable = [t for t in self.threads if t.status == "runnable"]
            timers = [t for t in self.threads if t.status == "blocked" and t.wake is not None]
            env = self._env_ready()
            options = list(runnable)
            if env:
                options.append("ENV")
            if timers and (runnable or env) and not self._helper_alive() and not self._supervising():
                # stalling the whole process while a helper runs against the SUT's own timeout would turn a timeout
                # into a success (or the reverse) on a tree where the property holds; helper timing has its own faults
                options.append("TIME")
            if len(options) > 1:
                i, planned = self._decide(len(options))
                if planned:
                    choice = options[i]
                elif cur in runnable:
                    choice = cur
                else:
                    choice = options[0]
            elif options:
                choice = options[0]
            else:
                choice = None
            if choice is None:
                if timers:
                    choice = "TIME"
                else:
                    # quiescent: nothing can ever happen again inside the process
                    s = self.session
                    if s is not None and any(t.status == "blocked" and t.stdin for t in self.threads):
                        s.at_idle()  # may record a violation / raise SimStop
                        s.declare_deadlock()  # raises SimDeadlock
                    raise SimHang("every thread of the process is blocked for good")
            if choice == "ENV":
                s = self.session
                if not any(t.status == "blocked" and t.wake is not None for t in self.threads) and not runnable:
                    s.at_idle()  # the daemon is idle waiting for input: every consumed request must be answered
                s.client_act()
                self.wake_stdin()
                continue
            if choice == "TIME":
                t_next = min(t.wake for t in timers)
                if t_next > clock.now:
                    if runnable:
                        self.w.fault_fired("thread_stall")
                        self.w.event("sched", "stall", round(t_next - clock.now, 6))
                    clock.advance(t_next - clock.now)
                for t in timers:
                    if t.wake <= clock.now:
                        t.status, t.wake, t.on, t.stdin, t.timed_out = "runnable", None, None, False, True
                continue
            return choice

    def _switch_from(self, st):
        try:
            nxt = self._pick(st)
        except SimSignal as e:
            if st is self.main:
                st.status, st.wake, st.on, st.stdin = "runnable", None, None, False
                raise
            # a verdict reached in a worker thread: park this thread for good, wake the main thread with it
            if self.abort is None:
                self.abort = e
            nxt = self.main
            self.main.status, self.main.wake, self.main.on, self.main.stdin = "runnable", None, None, False
        if nxt is not st:
            self.cur = nxt
            self.switches += 1
            self.w.event("sched", "switch", st.tid, nxt.tid)
            nxt.gate.release()
            st.gate.acquire()
            # resumed
            self.cur = st
        if st is self.main and self.abort is not None:
            e, self.abort = self.abort, None
            raise e

    # -- end of a run ----------------------------------------------------------------------------------
    def drain(self):
        """what interpreter shutdown does: wait for every non-daemon thread (executor workers are joined by their
        atexit hook as well).  Called by the harness in the main thread after the SUT's main returned."""
        if not self.multi:
            return
        while True:
            pending = [t for t in self.threads if t is not self.main and t.status != "done" and not t.daemon]
            if not pending:
                return
            self.block(on=("thread", pending[0].tid), timeout=None)
