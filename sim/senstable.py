"""python -m sim.senstable : markdown table of /verif/sensitivity/results.json (for DESIGN.md 10.7)"""
import glob
import json
import os

VERIF = os.path.dirname(os.path.dirname(os.path.abspath(__file__)))


def main():
    res = []
    for name in ("results-mutants.json", "results-legit.json"):
        pth = os.path.join(VERIF, "sensitivity", name)
        if os.path.exists(pth):
            with open(pth) as f:
                res += json.load(f)
    needs = {}
    for meta in glob.glob(os.path.join(VERIF, "seeded", "*", "meta.json")):
        with open(meta) as f:
            m = json.load(f)
        needs["seeded/" + os.path.basename(os.path.dirname(meta))] = (m.get("needs") or "")[:140].replace("|", "/").replace("\n", " ")
    print("| change | property | result | violation classes reported | what it needs to manifest |")
    print("|---|---|---|---|---|")
    for r in res:
        print("| %s | %s | **%s** | %s | %s |" % (r["name"], r["property"], r["status"], ", ".join(r.get("classes", [])) or "—", needs.get(r["name"], "")))
    n = {}
    for r in res:
        n[r["status"]] = n.get(r["status"], 0) + 1
    print()
    print("Totals: " + ", ".join("%s %d" % kv for kv in sorted(n.items())))


if __name__ == "__main__":
    main()
