"""Seams: everything the SUT can use to meet time, other processes and its standard streams.

Installed inside a run fork (a child of a pristine zygote interpreter) before any repository code
is called.  Nothing here is in /repo: each seam replaces an object the repository looks up at call
time (`subprocess.Popen`, `time.time`, `sys.stdin`, ...).
"""
import errno as _errno
import io
import os
import signal
import subprocess
import sys
import time as _time
from _thread import get_ident as _get_ident

_real_Popen = subprocess.Popen
_real_os_write = os.write
_real_setitimer, _real_signal, _real_getsignal = signal.setitimer, signal.signal, signal.getsignal
TimeoutExpired = subprocess.TimeoutExpired
PIPE, DEVNULL, STDOUT = subprocess.PIPE, subprocess.DEVNULL, subprocess.STDOUT

INF = float("inf")
FAKE_PID_BASE = 1_000_000


from .seams_base import SimSignal, SimHang, StepBudget, SimDeadlock, SimStop, Unmodelled  # noqa: E402,F401


# ---------------------------------------------------------------------------------------------
class SimClock:
    """virtual seconds; the only clock the SUT can read"""

    EPOCH = 1_800_000_000.0

    def __init__(self, jumps=None):
        self.now = 0.0
        self.reads = 0
        # wall-clock steps (NTP correction, suspend/resume, the user setting the date): the i-th read of the
        # wall clock first moves it by jumps[i] seconds, forwards or backwards.  The monotonic clock and the
        # simulator's own time line are not affected.
        self.jumps = list(jumps or [])
        self.skew = 0.0
        self.jumped = 0
        self.sched = None
        self.deadline = None  # virtual-time budget of the call in progress (a loop that only ever waits)
        self.budget = 0.0

    def advance(self, d):
        if d < 0:
            raise ValueError("time going backwards")
        if d == INF:
            raise SimHang("clock asked to advance forever")
        self.now += d
        if self.deadline is not None and self.now > self.deadline:
            self.deadline = None
            raise SimHang("no return after %.0f virtual seconds" % self.budget)

    # replacements for the `time` module
    def time(self):
        self.reads += 1
        self.now += 1e-6  # a clock read costs a microsecond, so spin-on-clock loops terminate
        if self.jumps:
            self.skew += float(self.jumps.pop(0))
            self.jumped += 1
        return self.EPOCH + self.now + self.skew

    def monotonic(self):
        self.reads += 1
        self.now += 1e-6
        return 1000.0 + self.now

    def time_ns(self):
        return int(self.time() * 1e9)

    def monotonic_ns(self):
        return int(self.monotonic() * 1e9)

    def sleep(self, d):
        d = float(d)
        if d < 0:
            raise ValueError("sleep length must be non-negative")
        if self.sched is not None:
            self.sched.sleep(d)  # a blocking point: other threads may run, time moves when nothing can
        else:
            self.advance(d)


# ---------------------------------------------------------------------------------------------
class StepClock:
    """Counts SUT progress in interpreter events (PY_START + JUMP): every unbounded Python
    computation produces unboundedly many of one of them.  A CPU-time guard (ITIMER_VIRTUAL)
    backs it up for loops inside C code."""

    def __init__(self, use_monitoring=True, cpu_guard_s=60.0):
        self.n = 0
        self.limit = None
        self.exhausted = False
        self.use_monitoring = use_monitoring
        self.cpu_guard_s = cpu_guard_s
        self._tool = None
        self.sched = None

    def install(self):
        if self.use_monitoring:
            self.enable_monitoring()
        signal.signal(signal.SIGVTALRM, self._on_cpu)

    def enable_monitoring(self):
        """interpreter events: the step budget, and the pre-emption points once the SUT runs more than one thread
        (switched on lazily then, so that a sequential SUT does not pay for it)"""
        if self._tool is not None:
            return
        mon = sys.monitoring
        self._tool = mon.PROFILER_ID
        mon.use_tool_id(self._tool, "pytrapic-sim-steps")
        ev = mon.events
        mon.register_callback(self._tool, ev.PY_START, self._on)
        mon.register_callback(self._tool, ev.JUMP, self._on)
        mon.set_events(self._tool, ev.PY_START | ev.JUMP)

    def _on(self, code, offset, *rest):
        sch = self.sched
        if sch is not None and sch.multi and _get_ident() != sch.cur.ident:
            # a real thread that does not hold the baton (it is on its way to, or back from, its gate): the few
            # bytecodes it executes there run concurrently with the baton holder and must not be observed
            return
        self.n += 1
        if self.limit is not None and self.n > self.limit:
            self.exhausted = True
            raise StepBudget("step budget exhausted (%d events)" % self.n)
        if self.sched is not None and (self.sched.multi or self.sched.alarm_at is not None):
            self.sched.on_step(code)

    def _on_cpu(self, signum, frame):
        if self.limit is None:
            return
        self.exhausted = True
        # re-arm so that a handler somewhere that swallows BaseException cannot carry on for long
        _real_setitimer(signal.ITIMER_VIRTUAL, 1.0)
        raise StepBudget("CPU guard: %.0f s of CPU time in one call" % self.cpu_guard_s)

    def begin(self, budget):
        self.exhausted = False
        self.limit = self.n + budget
        _real_setitimer(signal.ITIMER_VIRTUAL, self.cpu_guard_s)

    def end(self):
        _real_setitimer(signal.ITIMER_VIRTUAL, 0)
        self.limit = None


# ---------------------------------------------------------------------------------------------
class _ChildStream:
    """what `process.stdout` / `process.stderr` are when PIPE was requested: bytes become readable at the virtual
    time the helper writes them; EOF when the helper and every descendant holding the pipe are gone"""

    def __init__(self, proc, which):
        self._proc, self._which, self._pos, self.closed = proc, which, 0, False
        self._fd = None  # descriptor number, allocated on the first fileno() (sim/childfd.py)

    def _wait(self, want):
        """block until want(available bytes from pos, eof?) is true"""
        p = self._proc
        if self.closed:
            raise ValueError("I/O operation on closed file")
        p._resolve()
        p._start_reading()
        w = p.world
        while True:
            now = w.clock.now
            data = p._avail(self._which, now)[self._pos:]
            eof = now >= p._pipes_end()
            if eof or want(data):
                return data, eof
            nxt = p._next_output_time(self._which, now)
            target = min(nxt, p._pipes_end())
            w.sched.wait_for(lambda: min(p._next_output_time(self._which, now), p._pipes_end()), None, on=p)

    def read(self, n=-1):
        if n is None or n < 0:
            data, _ = self._wait(lambda d: False)
        else:
            data, _ = self._wait(lambda d: len(d) >= 1)
            data = data[:n]
        self._pos += len(data)
        return self._proc._conv(data)

    def read1(self, n=-1):
        data, _ = self._wait(lambda d: len(d) >= 1)
        if n is not None and n >= 0:
            data = data[:n]
        self._pos += len(data)
        return self._proc._conv(data)

    def readinto(self, b):
        data = self.read1(len(b))
        if isinstance(data, str):
            data = data.encode("utf-8")
        b[:len(data)] = data
        return len(data)

    def readline(self, n=-1):
        data, _ = self._wait(lambda d: b"\n" in d)
        i = data.find(b"\n")
        data = data if i < 0 else data[:i + 1]
        if n is not None and n >= 0:
            data = data[:n]
        self._pos += len(data)
        return self._proc._conv(data)

    def readlines(self, hint=-1):
        out = []
        while True:
            ln = self.readline()
            if not ln:
                return out
            out.append(ln)

    def __iter__(self):
        return self

    def __next__(self):
        ln = self.readline()
        if not ln:
            raise StopIteration
        return ln

    def readable(self):
        return True

    def close(self):
        self.closed = True
        if self._fd is not None:
            fd, self._fd = self._fd, None
            self._proc.world.childfds.close(fd)
        self._proc.world.sched.notify(self._proc)

    def fileno(self):
        if self.closed:
            raise ValueError("I/O operation on closed file")
        return self._proc.world.childfds.fd_for(self)

    def __enter__(self):
        return self

    def __exit__(self, *a):
        self.close()


class _ChildStdin:
    def __init__(self, proc):
        self._proc, self.closed = proc, False

    def write(self, b):
        if isinstance(b, str):
            b = b.encode(self._proc._encoding or "utf-8")
        self._proc._stdin_data += bytes(b)
        return len(b)

    def flush(self):
        pass

    def close(self):
        self.closed = True


class SimPopen:
    """Simulated process boundary.  The *script* is real and is really executed (in a fork of the
    pristine zygote, see helper.py); creation, scheduling, time and the descriptor table are
    simulated and faults are injected from the run's plan."""

    world = None  # set by install()

    def __init__(self, args, bufsize=-1, executable=None, stdin=None, stdout=None, stderr=None,
                 preexec_fn=None, close_fds=True, shell=False, cwd=None, env=None,
                 universal_newlines=None, startupinfo=None, creationflags=0, restore_signals=True,
                 start_new_session=False, pass_fds=(), *, user=None, group=None, extra_groups=None,
                 encoding=None, errors=None, text=None, umask=-1, pipesize=-1, process_group=None):
        w = self.world
        self.args = args
        self.returncode = None
        self._killed = False
        self._waited = False
        self._encoding = encoding or ("utf-8" if (text or universal_newlines or errors) else None)
        self._errors = errors or "strict"
        self._stdin_data = b""
        self._stdin_arg, self._stdout_arg, self._stderr_arg = stdin, stdout, stderr
        # the helper leads its own process group (start_new_session / process_group=0): a group kill reaches
        # everything it started
        self._own_group = bool(start_new_session) or process_group == 0
        self._orphan_end = None  # virtual time until which a descendant of the helper keeps the pipes open
        self._orphan_killed = False
        self._orphan_escaped = False
        self._group_signalled = False  # os.killpg on the helper's own group was used: the caller takes care of descendants
        self._chunks, self._drip, self._kill_t = [], None, None
        self._inherited_done = False
        self._reader_since = None  # virtual time at which the parent started to read the helper's pipes
        if shell or preexec_fn is not None:
            raise Unmodelled("Popen(shell=%r, preexec_fn=%r)" % (shell, preexec_fn))
        self._file_fds = {}  # stdio given as a real file (object or descriptor): name -> descriptor number
        for name, v in (("stdin", stdin), ("stdout", stdout), ("stderr", stderr)):
            if v is None or (isinstance(v, int) and v in (PIPE, DEVNULL)) or (name == "stderr" and v == STDOUT):
                continue
            fd = v if isinstance(v, int) and not isinstance(v, bool) and v >= 0 else None
            if fd is None and hasattr(v, "fileno"):
                try:
                    if hasattr(v, "flush"):
                        v.flush()
                    fd = v.fileno()
                except (OSError, ValueError):
                    fd = None
            if fd is None or fd in (0, 1, 2):
                raise Unmodelled("Popen(%s=%r)" % (name, v))
            self._file_fds[name] = fd
        if "stdin" in self._file_fds:
            # the child reads the file from the offset the descriptor has now
            fd = self._file_fds["stdin"]
            try:
                off = os.lseek(fd, 0, os.SEEK_CUR)
                size = os.fstat(fd).st_size
                self._stdin_data = os.pread(fd, max(size - off, 0), off) if size > off else b""
            except OSError:
                raise Unmodelled("Popen(stdin=%r): not a regular file" % (stdin,))
        if isinstance(args, (str, bytes)):
            args = [args]
        argv = [os.fsdecode(a) for a in args]
        self._script, self._script_from_stdin, self._script_args = self._parse_argv(argv)
        self._req, self._idx = w.cur_req, w.next_helper_index()
        self._plan = w.helper_plan(self._req, self._idx)
        self._spawn_t = w.clock.now
        kind = self._plan.get("kind", "ok")
        w.fault_fired(kind)
        if kind == "orphan":
            life = self._plan.get("life", "inf")
            self._orphan_end = INF if life in (None, "inf") else self._spawn_t + float(life)
            self._orphan_escaped = bool(self._plan.get("escaped"))
        if kind == "spawn_fail":
            en = self._plan.get("errno", _errno.EAGAIN)
            w.event("helper", self._req, self._idx, "spawn_fail", en)
            raise OSError(en, os.strerror(en))
        w.clock.advance(0.001)
        self.pid = FAKE_PID_BASE + len(w.helpers)
        w.helpers.append(self)
        self._eff = None
        self._finish = None
        self.stdin = _ChildStdin(self) if (isinstance(stdin, int) and stdin == PIPE) else None
        self.stdout = _ChildStream(self, "out") if (isinstance(stdout, int) and stdout == PIPE) else None
        self.stderr = _ChildStream(self, "err") if (isinstance(stderr, int) and stderr == PIPE) else None
        w.event("helper", self._req, self._idx, "spawn", kind,
                {None: "inherit", PIPE: "pipe", DEVNULL: "devnull"}.get(stdin if isinstance(stdin, int) or stdin is None else "f", "file"),
                {None: "inherit", PIPE: "pipe", DEVNULL: "devnull"}.get(stdout if isinstance(stdout, int) or stdout is None else "f", "file"))
        if not self._script_from_stdin:
            self._resolve()

    # -- argv ------------------------------------------------------------------------------
    @staticmethod
    def _parse_argv(argv):
        if not argv:
            raise Unmodelled("Popen([])")
        exe = os.path.basename(argv[0])
        if not (argv[0] == sys.executable or exe.startswith("python") or exe.startswith("pypy")):
            raise Unmodelled("helper is not a Python interpreter: %r" % (argv[0],))
        i = 1
        while i < len(argv):
            a = argv[i]
            if a == "-c":
                if i + 1 >= len(argv):
                    raise Unmodelled("python -c without code")
                return argv[i + 1], False, argv[i + 2:]
            if a == "-":
                return None, True, argv[i + 1:]
            if a in ("-X", "-W"):
                i += 2
                continue
            if a == "-m":
                raise Unmodelled("python -m %s as helper" % (argv[i + 1:i + 2],))
            if a.startswith("-"):
                i += 1
                continue
            try:  # a script file, e.g. a temp file the SUT has just written
                with open(a, "r", encoding="utf-8") as f:
                    return f.read(), False, argv[i + 1:]
            except OSError as e:
                raise Unmodelled("helper script file %r unreadable: %s" % (a, e))
        return None, True, []  # bare `python`: program read from stdin

    # -- outcome ---------------------------------------------------------------------------
    def _stdin_mode(self):
        if self._script_from_stdin:
            return "eof"  # the program came through stdin; the program itself sees EOF
        if self._stdin_arg is None:
            return "inherit"
        if self._stdin_arg == PIPE and self._stdin_data:
            return "data"
        if "stdin" in self._file_fds and self._stdin_data:
            return "data"
        return "eof"  # DEVNULL, or PIPE that communicate() closes without writing

    def _resolve(self):
        if self._eff is not None:
            return
        w = self.world
        if self._script_from_stdin:
            script = self._stdin_data.decode("utf-8", "replace")
        else:
            script = self._script
        mode = self._stdin_mode()
        oc = w.helper_outcome(script, mode, self._stdin_data if mode == "data" else b"", self._script_args)
        if mode == "inherit" and oc.get("state") == "blocked-on-stdin" and getattr(w, "session", None) is not None:
            # the helper shares the daemon's request pipe and reads it: whatever request bytes are waiting there
            # (a pipelining client) are its input, and are gone for the daemon
            stolen = w.session.steal_for_current_helper(self)
            if stolen:
                oc = w.helper_outcome(script, "data", stolen, self._script_args)
        self._intrinsic = oc
        plan, kind = self._plan, self._plan.get("kind", "ok")
        state = oc["state"]  # exit | never-ends | blocked-on-stdin
        out, err, rc = oc.get("out", b""), oc.get("err", b""), oc.get("rc", 0)
        d0 = plan.get("d", 0.2)
        dur = d0 + oc.get("slept", 0.0)
        if state != "exit":
            dur, rc = INF, None
        t0 = self._spawn_t
        # output timeline: (virtual time, stream, bytes).  A helper that ends writes its output when it ends; one that
        # gets stuck wrote what it wrote before getting stuck (after its start-up time d).
        t_out = t0 + (dur if dur != INF else d0)
        chunks = []
        if kind in ("ok", "slow", "orphan"):
            chunks += [(t_out, "out", out), (t_out, "err", err)]
        elif kind == "linger":
            # the function returned and the result was printed, but the interpreter cannot exit (a non-daemon thread the
            # function started is still running): complete output, no EOF, no exit status
            chunks += [(t_out, "out", out), (t_out, "err", err)]
            dur, rc = INF, None
        elif kind == "stall":
            dur = INF  # frozen before it did anything
        elif kind == "crash":
            sig = plan.get("sig", 9)
            dur = min(dur, plan.get("d", 0.1))
            rc = -sig
            chunks += [(t0 + dur, "out", out[:plan.get("k", 0)])]
        elif kind == "nonzero":
            dur = min(dur, plan.get("d", 0.1)) if dur != INF else plan.get("d", 0.1)
            rc = plan.get("rc", 1)
            chunks += [(t0 + dur, "err", _plan_bytes(plan, "text"))]
        elif kind == "garbage_out":
            chunks += [(t0 + 0.01, "out", _plan_bytes(plan, "b"))]  # printed while the interpreter starts up
            if plan.get("keep", True):
                chunks += [(t_out, "out", out)]
            chunks += [(t_out, "err", err)]
        elif kind == "stderr_noise":
            chunks += [(t0 + 0.01, "err", _plan_bytes(plan, "text")), (t_out, "out", out), (t_out, "err", err)]
        elif kind == "drip":
            # the function reports progress: a little output every `every` seconds, for `for` seconds (or for ever),
            # then it ends like the fault-free helper
            every = max(float(plan.get("every", 0.5)), 0.01)
            life = plan.get("for", "inf")
            self._drip = {"every": every, "which": plan.get("stream", "out"), "data": _plan_bytes(plan, "text") or b".\n",
                          "t0": t0 + d0, "until": INF if life in (None, "inf") else t0 + d0 + float(life)}
            if self._drip["until"] == INF or state != "exit":
                dur, rc = INF, None
            else:
                dur = d0 + float(life) + oc.get("slept", 0.0)
                chunks += [(t0 + dur, "out", out), (t0 + dur, "err", err)]
        else:
            raise Unmodelled("unknown helper fault kind %r" % (kind,))
        self._chunks = sorted([c for c in chunks if c[2]], key=lambda c: c[0])
        self._eff = {"rc": rc}
        self._finish = t0 + dur if dur != INF else INF
        self._blocked_on_stdin = state == "blocked-on-stdin" and kind not in ("crash", "nonzero", "stall")
        w.probe("helper-intrinsic-" + state)

    def _avail(self, which, t):
        """bytes the helper has written to `which` by virtual time t (nothing after it was killed)"""
        if self._killed:
            t = min(t, self._kill_t)
        t = min(t, self._finish)
        parts = [(ct, b) for ct, wh, b in self._chunks if wh == which and ct <= t]
        dr = self._drip
        if dr is not None and dr["which"] == which and t >= dr["t0"]:
            n = int((min(t, dr["until"]) - dr["t0"]) / dr["every"] + 1e-9) + 1
            n = min(n, 200000)
            parts += [(dr["t0"] + i * dr["every"], dr["data"]) for i in range(n)]
            parts.sort(key=lambda x: x[0])
        return b"".join(b for _, b in parts)

    def _next_output_time(self, which, now):
        """the next virtual time after `now` at which more bytes appear on `which` (INF if never)"""
        end = self._kill_t if self._killed else self._finish
        best = INF
        for ct, wh, b in self._chunks:
            if wh == which and now < ct <= end:
                best = min(best, ct)
        dr = self._drip
        if dr is not None and dr["which"] == which:
            if now < dr["t0"]:
                nt = dr["t0"]
            else:
                nt = dr["t0"] + (int((now - dr["t0"]) / dr["every"] + 1e-9) + 1) * dr["every"]
            if nt <= min(end, dr["until"]):
                best = min(best, nt)
        return best

    def _conv(self, b):
        if self._encoding:
            return b.decode(self._encoding, self._errors).replace("\r\n", "\n")
        return b

    # -- liveness --------------------------------------------------------------------------
    def sim_alive(self):
        """running right now (virtual time): spawned, not finished by itself, not killed"""
        if self._killed or self.returncode is not None:
            return False
        if self._finish is None:
            return True  # program not even delivered yet (python - without input)
        return self._exit_time() > self.world.clock.now

    def _mark_exit(self):
        if self.returncode is None:
            self.returncode = self._eff["rc"]
            w = self.world
            w.event("helper", self._req, self._idx, "exit", self.returncode)
            self._deliver_inherited()
            w.sched.notify(self)

    def _deliver_inherited(self):
        # a child started with stdout=None / stderr=None writes into the parent's descriptors
        w = self.world
        if self._inherited_done:
            return
        self._inherited_done = True
        if self._stdout_arg is None and self._visible("out"):
            w.inherited_output(1, self._visible("out"))
        if self._stderr_arg is None and self._visible("err"):
            w.inherited_output(2, self._visible("err"))
        for name, which in (("stdout", "out"), ("stderr", "err")):
            fd = self._file_fds.get(name)
            if fd is not None and self._visible(which):  # what the child wrote into the file it was given
                try:
                    _real_os_write(fd, self._visible(which))
                except OSError:
                    pass

    PIPE_CAPACITY = 65536

    def _backpressured(self):
        """the helper has more to write into a pipe than the pipe holds and nobody reads it: it cannot finish"""
        if self._reader_since is not None or self._eff is None or self._finish == INF:
            return False
        for name, which in (("_stdout_arg", "out"), ("_stderr_arg", "err")):
            arg = getattr(self, name)
            if isinstance(arg, int) and arg == PIPE and len(self._avail(which, INF)) > self.PIPE_CAPACITY:
                return True
        return False

    def _exit_time(self):
        """virtual time at which the helper ends by itself"""
        if self._backpressured():
            return INF  # blocked in write(): the classic wait()-before-read deadlock
        if self._reader_since is not None and self._finish != INF and self._big_output():
            return max(self._finish, self._reader_since)
        return self._finish

    def _big_output(self):
        return any(isinstance(getattr(self, n), int) and getattr(self, n) == PIPE and len(self._avail(wh, INF)) > self.PIPE_CAPACITY
                   for n, wh in (("_stdout_arg", "out"), ("_stderr_arg", "err")))

    def _proc_end(self):
        """virtual time at which the helper process itself is gone"""
        return self._kill_t if self._killed else self._exit_time()

    def _start_reading(self):
        if self._reader_since is None:
            self._reader_since = self.world.clock.now
            self.world.sched.notify(self)

    def _open_pipes(self):
        return [st for st in (self.stdout, self.stderr) if st is not None and not st.closed]

    def _pipes_end(self):
        """virtual time at which the last write end of the helper's output pipes is closed: the helper's
        own end, or later if a process it started inherited the pipes and is still alive"""
        t = self._proc_end()
        if self._orphan_end is not None and not self._orphan_killed and self._open_pipes():
            t = max(t, self._orphan_end)
        return t

    def _reap_by_waiting(self, timeout, pipes=False):
        """block until the child ends (pipes=True: until its output pipes reach EOF, which is what
        communicate()/read() wait for) or the timeout expires (virtual time)"""
        w = self.world
        self._resolve()
        fn = self._pipes_end if pipes else self._proc_end
        try:
            reached = w.sched.wait_for(fn, timeout, on=self)
        except SimHang:
            w.event("helper", self._req, self._idx, "wait-forever", "pipes" if self._proc_end() != INF else "process")
            if self._proc_end() != INF:
                raise SimHang("blocking read without timeout on the pipes of a helper whose descendant keeps them open forever")
            raise SimHang("blocking wait without timeout on a helper that never finishes")
        if self.returncode is None and not self._killed and self._exit_time() <= w.clock.now:
            self._mark_exit()
        return reached

    # -- Popen API -------------------------------------------------------------------------
    def communicate(self, input=None, timeout=None):
        w = self.world
        if input is not None:
            if self._stdin_arg != PIPE:
                raise Unmodelled("communicate(input=...) without stdin=PIPE")
            self.stdin.write(input)
        self._resolve()
        self._start_reading()
        if not self._reap_by_waiting(timeout, pipes=True):
            w.event("helper", self._req, self._idx, "timeout", float(timeout))
            w.probe("helper-timeout")
            # as CPython: what has been read so far travels with the exception (bytes, also in text mode)
            po = self._avail("out", w.clock.now) if self._stdout_arg == PIPE else b""
            pe = self._avail("err", w.clock.now) if self._stderr_arg == PIPE else b""
            if po or pe:
                w.probe("helper-timeout-with-partial-output")
            raise TimeoutExpired(self.args, timeout, output=po or None, stderr=pe or None)
        self._waited = True
        out = self._conv(self._visible("out")) if self._stdout_arg == PIPE else None
        if self._stderr_arg == STDOUT:
            err = None
        else:
            err = self._conv(self._visible("err")) if self._stderr_arg == PIPE else None
        return out, err

    def _visible(self, which):
        """everything the helper wrote to `which` during its life"""
        return self._avail(which, INF)

    def wait(self, timeout=None):
        if not self._reap_by_waiting(timeout):
            self.world.event("helper", self._req, self._idx, "timeout", float(timeout))
            self.world.probe("helper-timeout")
            raise TimeoutExpired(self.args, timeout)
        self._waited = True
        return self.returncode

    def poll(self):
        w = self.world
        w.clock.advance(0.001)  # a poll costs a millisecond: busy-poll loops make progress
        self._resolve()
        if self.returncode is None and not self._killed and self._exit_time() <= w.clock.now:
            self._mark_exit()
        return self.returncode

    def send_signal(self, sig):
        w = self.world
        self._resolve()
        if self.returncode is not None or self._killed:
            return
        if self._exit_time() <= w.clock.now:
            self._mark_exit()
            return
        if sig in (signal.SIGKILL, signal.SIGTERM, signal.SIGINT, signal.SIGHUP, signal.SIGQUIT):
            self._killed, self._kill_t = True, w.clock.now
            self.returncode = -int(sig)
            w.event("helper", self._req, self._idx, "killed", int(sig))
            w.probe("helper-killed")
            self._deliver_inherited()
            w.sched.notify(self)
        elif sig in (signal.SIGSTOP, signal.SIGCONT, 0):
            pass
        else:
            raise Unmodelled("send_signal(%r)" % (sig,))

    def kill(self):
        self.send_signal(signal.SIGKILL)

    def _signal_group(self, sig):
        """os.killpg on the helper's own process group: the helper and everything it started"""
        w = self.world
        self.send_signal(sig)
        self._group_signalled = True
        if sig != signal.SIGKILL and self._plan.get("ignores_term"):
            return  # the descendant ignores everything that can be ignored
        if self._orphan_end is not None and not self._orphan_killed and not self._orphan_escaped \
                and self._orphan_end > w.clock.now and sig in (signal.SIGKILL, signal.SIGTERM, signal.SIGINT, signal.SIGHUP, signal.SIGQUIT):
            self._orphan_killed = True
            w.event("helper", self._req, self._idx, "descendants-killed", int(sig))
            w.probe("helper-descendants-killed")
            w.sched.notify(self)

    def orphan_alive(self):
        return (self._orphan_end is not None and not self._orphan_killed
                and self._orphan_end > self.world.clock.now)

    def terminate(self):
        self.send_signal(signal.SIGTERM)

    def __enter__(self):
        return self

    def __exit__(self, exc_type, value, tb):
        # what subprocess.Popen.__exit__ does: close the pipes, then wait() without a timeout
        if exc_type is not None and issubclass(exc_type, SimSignal):
            return False
        for st in (self.stdout, self.stderr, self.stdin):
            if st is not None:
                st.close()
        self.wait()
        return False

    def __del__(self):
        pass


def _plan_bytes(plan, key):
    v = plan.get(key, "")
    if isinstance(v, dict):  # {"hex": "..."} for bytes that are not UTF-8
        return bytes.fromhex(v["hex"])
    return v.encode("utf-8")


# ---------------------------------------------------------------------------------------------
def _unmodelled(name):
    def f(*a, **k):
        raise Unmodelled("use of unmodelled seam %s" % name)

    f.__name__ = name.replace(".", "_")
    return f


def install(world, step_monitoring):
    """replace the seams in this process (a run fork).  Irreversible; the fork is thrown away."""
    from . import aioloop, sched as sched_mod, simthreading
    knobs = world.spec.get("knobs", {})
    world.sched = sched_mod.Sched(world, plan=knobs.get("sched"), preempt_every=knobs.get("preempt_every", 0))
    world.clock.sched = world.sched
    simthreading.install(world.sched)
    aioloop.install(world)
    SimPopen.world = world
    subprocess.Popen = SimPopen
    clock = world.clock
    subst = {_time.time: clock.time, _time.monotonic: clock.monotonic, _time.perf_counter: clock.monotonic,
             _time.time_ns: clock.time_ns, _time.monotonic_ns: clock.monotonic_ns,
             _time.perf_counter_ns: clock.monotonic_ns, _time.sleep: clock.sleep}
    # modules that took their own reference at import (`from time import monotonic as _time` in threading, queue,
    # subprocess, ...) must read the simulated clock too: one forgotten real clock breaks replay
    for mod in list(sys.modules.values()):
        name = getattr(mod, "__name__", "") or ""
        if name == "sim" or name.startswith("sim."):
            continue
        d = getattr(mod, "__dict__", None)
        if not isinstance(d, dict):
            continue
        for k, v in list(d.items()):
            try:
                r = subst.get(v)
            except TypeError:
                continue
            if r is not None:
                d[k] = r

    real_kill, real_waitpid = os.kill, os.waitpid

    def sim_kill(pid, sig):
        if pid >= FAKE_PID_BASE:
            world.helpers[pid - FAKE_PID_BASE].send_signal(sig)
            return
        raise Unmodelled("os.kill(%r, %r) of a process the simulator does not own" % (pid, sig))

    def sim_waitpid(pid, options):
        if pid >= FAKE_PID_BASE:
            p = world.helpers[pid - FAKE_PID_BASE]
            if options & os.WNOHANG:
                rc = p.poll()
                if rc is None:
                    return (0, 0)
            else:
                rc = p.wait()
            return (pid, (-rc) if rc < 0 else (rc << 8))
        raise Unmodelled("os.waitpid(%r)" % (pid,))

    real_waitid = getattr(os, "waitid", None)

    def sim_waitid(idtype, ident, options):
        if idtype == os.P_PID and ident >= FAKE_PID_BASE:
            p = world.helpers[ident - FAKE_PID_BASE]
            p._resolve()
            if not (options & os.WNOHANG):
                p._reap_by_waiting(None)
            else:
                world.clock.advance(0.0005)
            end = p._proc_end()
            if end > world.clock.now:
                return None
            rc = p.returncode if p.returncode is not None else p._eff["rc"]
            if not (options & getattr(os, "WNOWAIT", 0)) and p.returncode is None and not p._killed:
                p._mark_exit()
            code, status = (1, rc) if (rc is not None and rc >= 0) else (2, -(rc or -9))  # CLD_EXITED / CLD_KILLED
            return os.waitid_result((ident, 0, 17, status, code))
        if real_waitid is None:
            raise AttributeError("waitid")
        return real_waitid(idtype, ident, options)

    if real_waitid is not None:
        os.waitid = sim_waitid
    os.kill, os.waitpid = sim_kill, sim_waitpid
    real_getpgid = os.getpgid

    def sim_killpg(pgid, sig):
        if pgid >= FAKE_PID_BASE:
            p = world.helpers[pgid - FAKE_PID_BASE]
            if not p._own_group:  # the helper is a member of the caller's group; no group has its pid as id
                raise ProcessLookupError(_errno.ESRCH, os.strerror(_errno.ESRCH))
            p._signal_group(sig)
            return
        raise Unmodelled("os.killpg(%r, %r) of a process group the simulator does not own" % (pgid, sig))

    def sim_getpgid(pid):
        if pid >= FAKE_PID_BASE:
            p = world.helpers[pid - FAKE_PID_BASE]
            return pid if p._own_group else real_getpgid(0)
        return real_getpgid(pid)

    os.killpg, os.getpgid = sim_killpg, sim_getpgid
    for name in ("system", "fork", "forkpty", "popen",
                 "execv", "execve", "execvp", "execl", "execlp", "spawnv", "spawnl"):
        if hasattr(os, name):
            setattr(os, name, _unmodelled("os." + name))
    try:
        import _posixsubprocess
        _posixsubprocess.fork_exec = _unmodelled("_posixsubprocess.fork_exec")
    except ImportError:
        pass
    from . import childfd
    childfd.install(world)  # descriptor numbers for the helper's pipes, select/poll/selectors, os.posix_spawn
    # SIGALRM in virtual time: alarm()/setitimer(ITIMER_REAL) arm a timer the scheduler owns; the handler runs in the
    # main thread at the next scheduling point at or after the expiry (between two bytecodes, as a real handler would)
    sch = world.sched

    def sim_alarm(seconds):
        left = sch.alarm_left()
        sch.set_alarm(float(seconds) if seconds else None, 0.0)
        return int(left + 0.999999) if left else 0

    def sim_setitimer(which, seconds, interval=0.0):
        if which != signal.ITIMER_REAL:
            raise Unmodelled("signal.setitimer(%r)" % (which,))
        left = sch.alarm_left()
        old = (left, sch.alarm_interval)
        sch.set_alarm(float(seconds) if seconds else None, float(interval or 0.0))
        return old

    def sim_getitimer(which):
        if which != signal.ITIMER_REAL:
            return (0.0, 0.0)
        return (sch.alarm_left(), sch.alarm_interval)

    def sim_signal(signum, handler):
        if signum == signal.SIGALRM:
            old = sch.alarm_handler
            sch.alarm_handler = handler
            return old if old is not None else signal.SIG_DFL
        return _real_signal(signum, handler)

    def sim_getsignal(signum):
        if signum == signal.SIGALRM:
            return sch.alarm_handler if sch.alarm_handler is not None else signal.SIG_DFL
        return _real_getsignal(signum)

    signal.alarm, signal.setitimer, signal.getitimer = sim_alarm, sim_setitimer, sim_getitimer
    signal.signal, signal.getsignal = sim_signal, sim_getsignal
    sc = StepClock(use_monitoring=step_monitoring)
    sc.install()
    sc.sched = world.sched
    real_setitimer = signal.setitimer
    world.steps = sc
    return sc
