"""The daemon's standard streams and the game-side client, as one deterministic scheduler.

The daemon is a sequential blocking program, so it runs as the main flow of the run fork and every
blocking point is a call into this module:

  SimRawIn.readinto   the daemon wants request bytes  -> deliver what the spec says, or let the
                      client act, or detect deadlock / EOF spinning / reading on after EXIT
  SimRawOut.write     the daemon (or anything else in the process) wrote to fd 1 -> reply pipe

The client is a model written from mod/PyTrapIC.cs (one WriteLine+Flush, one blocking ReadLine)
plus a pipelining variant.  It is a stub; the daemon module is real.  A leaked helper process that
inherited the daemon's stdin and sleeps in read(0) is a third actor (the "thief"): when the client
writes while both it and the daemon are blocked on the request pipe, the spec decides who wakes.
"""
import io

from .seams import SimDeadlock, SimStop


def classify_line(raw, errors="surrogateescape"):
    """raw: bytes of one delivered line without its '\\n'.  Returns
    'empty'  -> must get no reply        (empty after removing the line terminator)
    'blank'  -> zero or one reply        (whitespace only: non-empty to a reader, empty to a daemon that strips)
    'exit'   -> the stop word
    'request'-> exactly one reply
    """
    if raw.endswith(b"\r"):
        raw = raw[:-1]
    if raw == b"":
        return "empty"
    try:
        s = raw.decode("utf-8", errors)
    except UnicodeDecodeError:
        return "request"
    if s.strip() == "":
        return "blank"
    if s == "EXIT":
        return "exit"
    if s.strip() == "EXIT":
        return "exit-padded"  # ambiguity (ii) of DESIGN 3.3: never sent by the generator
    return "request"


def line_bytes(ln):
    raw = ln["raw"]
    if isinstance(raw, str):
        return raw.encode("utf-8", "surrogateescape")
    return bytes(raw)


class Session:
    def __init__(self, world, sess):
        self.w = world
        self.sess = sess
        self.lines = sess["lines"]
        cl = sess.get("client", {})
        self.mode = cl.get("mode", "lockstep")
        self.window = max(1, int(cl.get("window", 1)))
        self.eager_end = bool(cl.get("eager_end", False))
        self.end = sess.get("end", "exit")
        ch = sess.get("chunking", {"mode": "whole"})
        self.chunk_mode = ch.get("mode", "whole")
        self.chunk_n = max(1, int(ch.get("n", 1)))
        self.chunk_cuts = list(ch.get("cuts", []))
        self.short_writes = list(sess.get("short_writes", []))
        self.thief_choices = list(sess.get("thief", []))
        self.errors = sess.get("stdin_errors", "surrogateescape")

        self.inpipe = bytearray()  # written by the client, not yet read by anyone
        self.delivered = bytearray()  # everything the daemon has read
        self.stolen = 0  # bytes a thief took from the request pipe
        self.replies = bytearray()  # everything that reached the reply pipe (fd 1)
        self.next_line = 0
        self.client_seen_replies = 0
        self.expecting = 0  # replies the client is still waiting for
        self.closed = False
        self.exit_sent = False
        self.done_sending = False
        self.eof_reads = 0
        self.blocks = 0
        self.handed = 0  # lines handed to the daemon by its text layer
        self.violation = None
        self.stderr_bytes = 0
        self.stray_bytes = 0
        # The game redirects the daemon's standard error and never reads it (mod/PyTrapIC.cs:257): the pipe
        # takes `stderr_capacity` bytes and then every further write blocks for good.  None = unbounded sink.
        self.stderr_capacity = sess.get("stderr_capacity")
        self.streams = {}  # role -> the stream objects standing for fd 0/1/2 (filled by make_streams)
        self.fdtable = None  # virtual descriptor table (install_fd_seams)

    # -- bookkeeping --------------------------------------------------------------------------
    def _violate(self, cls, msg):
        if self.violation is None:
            self.violation = {"class": cls, "message": msg}
            self.w.event("daemon", "violation", cls)

    def complete_delivered_lines(self):
        parts = bytes(self.delivered).split(b"\n")
        return parts[:-1], parts[-1]

    def reply_lines(self):
        parts = bytes(self.replies).split(b"\n")
        return parts[:-1], parts[-1]

    def expected_reply_bounds(self):
        lo = hi = 0
        exited = False
        for raw in self.complete_delivered_lines()[0]:
            k = classify_line(raw, self.errors)
            if k == "exit":
                exited = True
                break
            if k == "request":
                lo += 1
                hi += 1
            elif k in ("blank", "exit-padded"):
                hi += 1
        return lo, hi, exited

    def note_line_handed(self, text):
        """the daemon's text layer returned one more line to the daemon"""
        if not text:
            return
        idx = self.handed
        self.handed += 1
        self.w.begin_request(idx, self.lines[idx].get("helpers", []) if idx < len(self.lines) else [])

    # -- the daemon reads ---------------------------------------------------------------------
    def _take(self, cap):
        n = self._chunk(cap)
        data = bytes(self.inpipe[:n])
        del self.inpipe[:n]
        self.w.event("daemon", "read", len(self.delivered), n)
        self.delivered += data
        return data

    def readinto(self, buf):
        """a blocking read(0): bytes, EOF, or a scheduling point (the client acts, other threads run, or nothing
        can ever happen again: deadlock)"""
        while True:
            if self.inpipe:
                data = self._take(len(buf))
                buf[:len(data)] = data
                return len(data)
            if self.closed:
                self.eof_reads += 1
                self.w.event("daemon", "read-eof", self.eof_reads)
                if self.eof_reads > 3:
                    self._violate("no-exit", "the daemon keeps reading after end of input (%d reads returned EOF)" % self.eof_reads)
                    raise SimStop("eof spin")
                return 0
            # the daemon is about to block on an empty request pipe
            self.blocks += 1
            self.w.sched.block(on="stdin", timeout=None, stdin=True)

    def poll_stdin(self):
        """would a read(0) return without blocking?"""
        return bool(self.inpipe) or self.closed

    def read_nonblocking(self, cap):
        """for event-loop transports: bytes, b"" at EOF, None if nothing is there"""
        if self.inpipe:
            return self._take(cap)
        if self.closed:
            self.eof_reads += 1
            self.w.event("daemon", "read-eof", self.eof_reads)
            return b""
        return None

    def stream_role(self, obj):
        for role, objs in self.streams.items():
            if any(obj is o for o in objs):
                return role
        return None

    # -- called by the scheduler ------------------------------------------------------------------
    def _sync_replies(self):
        lines, _ = self.reply_lines()
        newly = len(lines) - self.client_seen_replies
        if newly > 0:
            self.client_seen_replies = len(lines)
            self.expecting = max(0, self.expecting - newly)

    def client_ready(self):
        """can the client do something now (send the next request(s), EXIT, or close)?"""
        if self.violation is not None or self.done_sending:
            return False  # decided, or nothing left to send
        self._sync_replies()
        return self.expecting < (1 if self.mode == "lockstep" else self.window)

    def client_act(self):
        self._sync_replies()
        if self.mode == "lockstep":
            self._send_next(1)
        else:
            self._send_next(self.window - self.expecting)
        self._thief_race()

    def at_idle(self):
        """every thread of the daemon is blocked and at least one waits for input"""
        self._at_block()

    def declare_deadlock(self):
        lo, hi, _ = self.expected_reply_bounds()
        got = len(self.reply_lines()[0])
        self.w.event("daemon", "deadlock", lo, got)
        if self.violation is None:
            what = "deadlock: the daemon waits for input and the client waits for a reply"
            if self.stolen:
                what += " (%d request bytes were consumed by a leaked helper process that shares the daemon's stdin)" % self.stolen
            self._violate("unanswered", "%s; %d request lines sent, %d reply lines on the pipe"
                          % (what, sum(1 for l in self.lines[:self.next_line] if classify_line(line_bytes(l), self.errors) == "request"), got))
        raise SimDeadlock("deadlock")

    def _chunk(self, cap):
        avail = len(self.inpipe)
        if self.chunk_mode == "whole":
            n = avail
        elif self.chunk_mode == "fixed":
            n = self.chunk_n
        else:  # explicit cut sizes, then whole
            n = self.chunk_cuts.pop(0) if self.chunk_cuts else avail
        return max(1, min(n, avail, cap))

    def _thief_race(self):
        """the client has just written; if a leaked helper sleeps in read(0) on the same pipe, the
        spec decides whether it or the daemon is woken"""
        if not self.inpipe:
            return
        for h in self.w.helpers:
            if h.sim_alive() and getattr(h, "_blocked_on_stdin", False) and h._stdin_arg is None:
                self.w.probe("thief-armed")
                wins = self.thief_choices.pop(0) if self.thief_choices else False
                if wins:
                    n = min(len(self.inpipe), 8192)
                    del self.inpipe[:n]
                    self.stolen += n
                    h._finish = self.w.clock.now  # it got its input and goes on to finish
                    h._blocked_on_stdin = False
                    self.w.event("thief", "stole", n)
                    self.w.probe("thief-woke")
                    self.w.fault_fired("thief")
                return

    def steal_for_current_helper(self, h):
        """a helper that reads stdin and shares the request pipe is started while request bytes
        are waiting in the pipe (pipelining client): it takes them"""
        if not self.inpipe:
            return b""
        n = min(len(self.inpipe), 8192)
        data = bytes(self.inpipe[:n])
        del self.inpipe[:n]
        self.stolen += n
        self.w.event("thief", "stole-at-spawn", n)
        self.w.probe("thief-woke")
        self.w.fault_fired("thief")
        return data

    def _at_block(self):
        """invariants that must hold whenever the daemon blocks for more input"""
        if self.violation is not None:
            return
        lo, hi, exited = self.expected_reply_bounds()
        if exited:
            self._violate("no-exit", "the daemon asks for more input after EXIT was delivered")
            raise SimStop("read after EXIT")
        lines, tail = self.reply_lines()
        if tail:
            self._violate("bad-frame", "the daemon blocks for input with an unterminated reply on the pipe: %r" % bytes(tail[:60]))
            return
        got = len(lines)
        if got < lo:
            self._violate("unanswered", "the daemon blocks for input but only %d reply lines are on the pipe for %d "
                          "complete non-empty request lines it has read (reply missing or not flushed)" % (got, lo))
        elif got > hi:
            self._violate("count", "%d reply lines on the pipe for at most %d request lines read" % (got, hi))

    # -- the client acts ----------------------------------------------------------------------
    def _send_next(self, room):
        progressed = False
        while room > 0:
            if self.next_line >= len(self.lines):
                if progressed and not self.eager_end:
                    return True
                return self._terminate() or progressed
            ln = self.lines[self.next_line]
            raw = line_bytes(ln)
            idx = self.next_line
            self.next_line += 1
            torn = ln.get("torn")  # only on the last line: send `torn` bytes of it, then close
            if torn is not None:
                self.inpipe += raw[:torn]
                self.closed = True
                self.done_sending = True
                self.w.event("client", "send-torn", idx, min(torn, len(raw)))
                self.w.probe("eof-mid-line")
                self.w.fault_fired("eof_mid_line")
                return True
            term = ln.get("term", "\n").encode()
            self.inpipe += raw + term
            k = classify_line(raw, self.errors)
            self.w.event("client", "send", idx, len(raw) + len(term), k)
            progressed = True
            if k == "request":
                self.expecting += 1
                room -= 1
        if self.eager_end and self.next_line >= len(self.lines):
            self._terminate()
        return progressed

    def _terminate(self):
        if self.done_sending:
            return False
        self.done_sending = True
        if self.end in ("exit", "exit_then_more"):
            self.inpipe += b"EXIT" + self.sess.get("exit_term", "\n").encode()  # WriteLine on Windows ends lines with CR LF
            self.exit_sent = True
            if self.end == "exit_then_more":
                for extra in self.sess.get("after_exit", []):
                    self.inpipe += extra.encode("utf-8", "surrogateescape") + b"\n"
            self.w.event("client", "send-exit")
            return True
        self.closed = True
        self.w.event("client", "close")
        return True

    # -- the daemon (or anything else in the process) writes to fd 1 --------------------------
    def write_out(self, data):
        n = len(data)
        if self.short_writes:
            k = self.short_writes.pop(0)
            if 0 < k < n:
                n = k
                self.w.fault_fired("short_write")
        self.replies += bytes(data[:n])
        self.w.event("daemon", "write", n)
        return n

    def inherited(self, fd, data):
        if fd == 1:
            self.replies += data
            self.stray_bytes += len(data)
            self.w.event("helper", "wrote-to-daemon-stdout", len(data))
        else:
            self.stderr_bytes += len(data)  # a helper blocking on the full pipe is the helper's problem

    def write_err(self, data):
        """the daemon process writes to fd 2"""
        n = len(data)
        cap = self.stderr_capacity
        if cap is not None and self.stderr_bytes + n > cap:
            self.stderr_bytes = max(self.stderr_bytes, cap)
            self.w.event("daemon", "stderr-full", cap)
            self.w.probe("stderr-pipe-full")
            self._violate("blocked-on-stderr",
                          "the daemon blocks for good writing to standard error: the game never reads that pipe "
                          "(mod/PyTrapIC.cs: RedirectStandardError, no reader) and it holds %d bytes; %d request "
                          "lines sent, %d reply lines on the pipe" % (cap, self.next_line, len(self.reply_lines()[0])))
            raise SimDeadlock("stderr pipe full")
        self.stderr_bytes += n
        return n


class SimRawIn(io.RawIOBase):
    """raw reader on a descriptor whose role is `stdin` (fd 0 or a dup of it)"""

    def __init__(self, session, fd=0, closefd=False):
        self.s = session
        self._fd = fd
        self._closefd = closefd
        self.name = fd
        self.mode = "rb"

    def readable(self):
        return True

    def readinto(self, b):
        mv = memoryview(b).cast("B")
        t = self.s.fdtable
        if t is not None and not t.blocking.get(self._fd, True) and not self.s.poll_stdin():
            return None  # what a raw non-blocking read returns when nothing is there
        return self.s.readinto(mv)

    def fileno(self):
        return self._fd

    def isatty(self):
        return False

    def close(self):
        if not self.closed and self._closefd and self.s.fdtable is not None:
            self.s.fdtable.close(self._fd)
        super().close()


class SimRawOut(io.RawIOBase):
    """raw writer on a descriptor; where the bytes go is looked up at write time, so that dup2() onto the descriptor
    re-points the stream as it does for a real one"""

    def __init__(self, sink, fd=None, session=None, closefd=False):
        self.sink = sink
        self._fd = fd
        self.s = session
        self._closefd = closefd
        self.name = fd
        self.mode = "wb"

    def writable(self):
        return True

    def write(self, b):
        data = bytes(b)
        if self.s is not None and self.s.fdtable is not None and self._fd is not None:
            return self.s.fdtable.write(self._fd, data)
        return self.sink(data)

    def fileno(self):
        if self._fd is None:
            raise io.UnsupportedOperation("simulated stream has no descriptor")
        return self._fd

    def isatty(self):
        return False

    def close(self):
        if not self.closed and self._closefd and self.s is not None and self.s.fdtable is not None:
            self.s.fdtable.close(self._fd)
        super().close()


class FdTable:
    """Which descriptor numbers stand for the daemon's request pipe, reply pipe and stderr pipe.  0/1/2 to begin with;
    os.dup / os.dup2 / os.close change it the way they change a real descriptor table.  Alias numbers are real
    descriptors (opened on /dev/null) so that they are unique in the process."""

    def __init__(self, session):
        import os
        self.s = session
        self.role = {0: "stdin", 1: "stdout", 2: "stderr"}
        self.blocking = {}
        self._real_dup, self._real_close, self._real_open = os.dup, os.close, os.open
        self._null = os.open(os.devnull, os.O_RDWR)

    def write(self, fd, data):
        r = self.role.get(fd)
        if r == "stdout":
            return self.s.write_out(data)
        if r == "stderr":
            return self.s.write_err(data)
        if r == "null":
            return len(data)
        raise OSError(9, "Bad file descriptor")

    def dup(self, fd):
        n = self._real_dup(self._null)
        self.role[n] = self.role[fd]
        self.blocking[n] = self.blocking.get(fd, True)
        return n

    def dup2(self, src, dst, real_dup2):
        rs = self.role.get(src)
        if rs is not None:
            if dst not in (0, 1, 2) and dst not in self.role:
                real_dup2(self._null, dst)
            self.role[dst] = rs
            return dst
        # a real descriptor is put over one of ours (e.g. /dev/null over descriptor 1)
        if dst in (0, 1, 2):
            self.role[dst] = "null"
        else:
            self.role.pop(dst, None)
            real_dup2(src, dst)
        return dst

    def close(self, fd):
        self.role.pop(fd, None)
        if fd not in (0, 1, 2):
            try:
                self._real_close(fd)
            except OSError:
                pass


class SimStdin(io.TextIOWrapper):
    """the real text layer; only notes which line the daemon has been handed (so that helper
    plans and the relaxed oracle can be attributed to the request being processed)"""

    _session = None

    def readline(self, *a):
        # iteration (`for line in sys.stdin`) ends up here too: for a subclass, the C implementation of __next__ calls
        # the readline *method*
        s = super().readline(*a)
        if s and self._session is not None:
            self._session.note_line_handed(s)
        return s


class SimStdinBuffer(io.BufferedReader):
    """the real binary layer (`sys.stdin.buffer`); notes lines handed out when the daemon reads bytes lines from it
    directly.  The text layer above reads it with read1()/read(), never with readline(), so nothing is counted twice."""

    _session = None

    def readline(self, *a):
        b = super().readline(*a)
        if b and self._session is not None:
            self._session.note_line_handed(b)
        return b


def make_streams(session, stdin_errors="surrogateescape"):
    """what CPython builds for fds 0/1/2 when they are pipes: BufferedReader/Writer + TextIOWrapper,
    stdout block-buffered, stderr line-buffered with backslashreplace"""
    rin = SimRawIn(session)
    buf = SimStdinBuffer(rin, 8192)
    buf._session = session
    stdin = SimStdin(buf, encoding="utf-8", errors=stdin_errors, newline=None)
    stdin._session = session
    rout = SimRawOut(session.write_out, 1, session)
    stdout = io.TextIOWrapper(io.BufferedWriter(rout, 8192), encoding="utf-8", errors="strict", newline=None,
                              line_buffering=False, write_through=False)

    rerr = SimRawOut(session.write_err, 2, session)
    session.streams["stdin"] = [stdin, stdin.buffer, rin]
    session.streams["stdout"] = [stdout, stdout.buffer, rout]
    stderr = io.TextIOWrapper(io.BufferedWriter(rerr, 8192), encoding="utf-8", errors="backslashreplace",
                              newline=None, line_buffering=True, write_through=False)
    session.streams["stderr"] = [stderr, stderr.buffer, rerr]
    return stdin, stdout, stderr


def install_fd_seams(world, session, stdin, stdout, stderr):
    """Descriptor-level access to the daemon's standard streams: os.read / os.write / os.dup / os.dup2 / os.close /
    os.fstat / os.set_blocking on descriptors 0, 1, 2 and their duplicates, open(fd, ...), os.fdopen, io.FileIO(fd),
    select.select on them.  They reach the same simulated pipes as sys.stdin / sys.stdout / sys.stderr."""
    import builtins
    import os
    import select

    table = FdTable(session)
    session.fdtable = table
    real = {n: getattr(os, n) for n in ("read", "write", "dup", "dup2", "close", "fstat", "set_blocking", "get_blocking", "isatty")}
    fifo_stat = real["fstat"](0)  # descriptor 0 of a run fork is a real pipe

    def sim_read(fd, n):
        if table.role.get(fd) == "stdin":
            if not table.blocking.get(fd, True) and not session.poll_stdin():
                raise BlockingIOError(11, "Resource temporarily unavailable")
            buf = bytearray(n)
            k = session.readinto(memoryview(buf))
            return bytes(buf[:k])
        return real["read"](fd, n)

    def sim_write(fd, data):
        if fd in table.role:
            return table.write(fd, bytes(data))
        return real["write"](fd, data)

    def sim_dup(fd):
        if fd in table.role:
            world.probe("dup-of-standard-descriptor")
            return table.dup(fd)
        return real["dup"](fd)

    def sim_dup2(fd, fd2, inheritable=True):
        if fd in table.role or fd2 in table.role or fd2 in (0, 1, 2):
            world.probe("dup2-on-standard-descriptor")
            return table.dup2(fd, fd2, real["dup2"])
        return real["dup2"](fd, fd2, inheritable)

    def sim_close(fd):
        if fd in table.role:
            return table.close(fd)
        return real["close"](fd)

    def sim_fstat(fd):
        if fd in table.role:
            return fifo_stat
        return real["fstat"](fd)

    def sim_set_blocking(fd, flag):
        if fd in table.role:
            table.blocking[fd] = bool(flag)
            return None
        return real["set_blocking"](fd, flag)

    def sim_get_blocking(fd):
        if fd in table.role:
            return table.blocking.get(fd, True)
        return real["get_blocking"](fd)

    def sim_isatty(fd):
        if fd in table.role:
            return False
        return real["isatty"](fd)

    os.read, os.write, os.dup, os.dup2, os.close = sim_read, sim_write, sim_dup, sim_dup2, sim_close
    os.fstat, os.set_blocking, os.get_blocking, os.isatty = sim_fstat, sim_set_blocking, sim_get_blocking, sim_isatty

    def raw_for(fd, mode, closefd):
        role = table.role.get(fd)
        if role == "stdin":
            if "r" not in mode and "+" not in mode:
                raise OSError(9, "Bad file descriptor")
            r = SimRawIn(session, fd, closefd)
        else:
            r = SimRawOut(None, fd, session, closefd)
        session.streams.setdefault(role if role in ("stdin", "stdout", "stderr") else "stdout", []).append(r)
        return r

    def layer(fd, mode, buffering, kw, closefd=True):
        text = "b" not in mode
        raw = raw_for(fd, mode, closefd)
        if not text and buffering == 0:
            return raw
        size = buffering if isinstance(buffering, int) and buffering > 1 else 8192
        if isinstance(raw, SimRawIn):
            buf = SimStdinBuffer(raw, size)
            buf._session = session
        else:
            buf = io.BufferedWriter(raw, size)
        session.streams.setdefault(table.role.get(fd) if table.role.get(fd) != "null" else "stdout", []).append(buf)
        if not text:
            return buf
        if isinstance(raw, SimRawIn):
            w = SimStdin(buf, encoding=kw.get("encoding") or "utf-8", errors=kw.get("errors") or stdin.errors, newline=kw.get("newline"))
            w._session = session
        else:
            w = io.TextIOWrapper(buf, encoding=kw.get("encoding") or "utf-8", errors=kw.get("errors") or "strict",
                                 newline=kw.get("newline"), line_buffering=(buffering == 1), write_through=False)
        session.streams.setdefault(table.role.get(fd) if table.role.get(fd) != "null" else "stdout", []).append(w)
        return w

    real_open, real_fdopen, real_FileIO = builtins.open, os.fdopen, io.FileIO

    def sim_open(file, mode="r", buffering=-1, encoding=None, errors=None, newline=None, closefd=True, opener=None):
        if isinstance(file, int) and not isinstance(file, bool) and file in table.role:
            world.probe("open-of-standard-descriptor")
            return layer(file, mode, buffering, {"encoding": encoding, "errors": errors, "newline": newline}, closefd)
        return real_open(file, mode, buffering, encoding, errors, newline, closefd, opener)

    def sim_fdopen(fd, mode="r", buffering=-1, encoding=None, *a, **k):
        if isinstance(fd, int) and fd in table.role:
            return sim_open(fd, mode, buffering, encoding, *a, **k)
        return real_fdopen(fd, mode, buffering, encoding, *a, **k)

    def sim_FileIO(file, mode="r", closefd=True, opener=None):
        if isinstance(file, int) and not isinstance(file, bool) and file in table.role:
            world.probe("open-of-standard-descriptor")
            return raw_for(file, mode if "b" in mode else mode + "b", closefd)
        return real_FileIO(file, mode, closefd, opener)

    builtins.open = sim_open
    io.open = sim_open
    io.FileIO = sim_FileIO
    os.fdopen = sim_fdopen

    real_select = select.select

    def role_of(x):
        if isinstance(x, int):
            return table.role.get(x)
        r = session.stream_role(x)
        if r is None and hasattr(x, "fileno"):
            try:
                return table.role.get(x.fileno())
            except (OSError, ValueError):
                return None
        return r

    def sim_select(rlist, wlist, xlist, timeout=None):
        ours_r = [x for x in rlist if role_of(x) == "stdin"]
        ours_w = [x for x in wlist if role_of(x) in ("stdout", "stderr", "null")]
        if not ours_r and not ours_w:
            return real_select(rlist, wlist, xlist, timeout)
        if len(ours_r) != len(rlist) or len(ours_w) != len(wlist) or xlist:
            raise_unmodelled("select.select on the standard streams together with other descriptors")
        if ours_w:
            return ([x for x in ours_r if session.poll_stdin()], list(ours_w), [])
        if not session.poll_stdin():
            if timeout is not None and timeout <= 0:
                return [], [], []
            session.blocks += 1
            world.sched.block(on="stdin", timeout=timeout, stdin=True)
        return (list(ours_r) if session.poll_stdin() else []), [], []

    def raise_unmodelled(what):
        from .seams_base import Unmodelled
        raise Unmodelled(what)

    select.select = sim_select
