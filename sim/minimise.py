"""Shrinking a failing run spec while the same violation class persists (delta debugging on the
explicit spec).  Every candidate runs in a new fork of a pristine zygote, so shrinking cannot stall
on leftover state."""
import copy
import json


def _units(spec):
    return spec["ops"] if spec["kind"] == "api" else spec["session"]["lines"]


def _with_units(spec, units):
    s = copy.deepcopy(spec)
    if s["kind"] == "api":
        s["ops"] = units
    else:
        s["session"]["lines"] = units
    return s


def _simplifications(spec):
    """single-step simplifications, most drastic first"""
    out = []
    s = copy.deepcopy(spec)
    if s.get("hash_seed", 0) != 0:
        t = copy.deepcopy(s)
        t["hash_seed"] = 0
        out.append(("hash seed -> 0", t))
    kn = s.get("knobs", {})
    if kn.get("do_timing"):
        t = copy.deepcopy(s)
        t["knobs"]["do_timing"] = False
        out.append(("timing knob off", t))
    if kn.get("sched") or kn.get("preempt_every"):
        t = copy.deepcopy(s)
        t["knobs"]["sched"], t["knobs"]["preempt_every"] = [], 0
        out.append(("default scheduling, no pre-emption", t))
        if kn.get("sched") and len(kn["sched"]) > 1:
            t = copy.deepcopy(s)
            t["knobs"]["sched"] = kn["sched"][: len(kn["sched"]) // 2]
            out.append(("half the scheduling decisions", t))
    if kn.get("clock_jumps"):
        t = copy.deepcopy(s)
        t["knobs"]["clock_jumps"] = []
        out.append(("no wall-clock jumps", t))
    if s["kind"] == "api":
        for i, op in enumerate(s["ops"]):
            if op.get("helpers") and any(p.get("kind") != "ok" for p in op["helpers"]):
                t = copy.deepcopy(s)
                t["ops"][i].pop("helpers")
                t["ops"][i].pop("faulty", None)
                out.append(("no faults in op %d" % i, t))
                for j, p in enumerate(op["helpers"]):
                    if p.get("kind") != "ok":
                        t = copy.deepcopy(s)
                        t["ops"][i]["helpers"][j] = {"kind": "ok", "d": 0.2}
                        out.append(("fault %d of op %d -> ok" % (j, i), t))
            if op.get("opt_style", "obj") not in ("obj",):
                t = copy.deepcopy(s)
                if op["opt_style"] == "shared":
                    t["ops"][i]["options"] = dict(s.get("shared_options") or {})
                t["ops"][i]["opt_style"] = "obj"
                out.append(("op %d: fresh options object" % i, t))
            if op.get("src_style", "dict") != "dict":
                t = copy.deepcopy(s)
                t["ops"][i]["src_style"] = "dict"
                t["ops"][i].pop("src_id", None)
                out.append(("op %d: fresh source dict" % i, t))
            for k in list((op.get("options") or {}).keys()):
                t = copy.deepcopy(s)
                t["ops"][i]["options"].pop(k)
                out.append(("op %d: drop option %s" % (i, k), t))
    else:
        sess = s["session"]
        if sess.get("chunking", {}).get("mode", "whole") != "whole":
            t = copy.deepcopy(s)
            t["session"]["chunking"] = {"mode": "whole"}
            out.append(("whole-line delivery", t))
        if sess.get("short_writes"):
            t = copy.deepcopy(s)
            t["session"].pop("short_writes")
            out.append(("no short writes", t))
        if sess.get("client", {}).get("mode") == "pipelined":
            t = copy.deepcopy(s)
            t["session"]["client"] = {"mode": "lockstep"}
            if not any(l.get("kind") == "blank" for l in sess["lines"]):
                out.append(("lock-step client", t))
            t = copy.deepcopy(s)
            t["session"]["client"]["eager_end"] = False
            if sess["client"].get("eager_end"):
                out.append(("client ends after the replies", t))
        if sess.get("end") not in ("exit",) and not any(l.get("torn") is not None for l in sess["lines"]):
            t = copy.deepcopy(s)
            t["session"]["end"] = "exit"
            t["session"].pop("after_exit", None)
            out.append(("end with EXIT", t))
        if sess.get("exit_term", "\n") != "\n":
            t = copy.deepcopy(s)
            t["session"].pop("exit_term")
            out.append(("EXIT terminated by LF", t))
        if sess.get("stdin_errors") == "strict":
            t = copy.deepcopy(s)
            t["session"]["stdin_errors"] = "surrogateescape"
            out.append(("stdin surrogateescape", t))
        if sess.get("stderr_capacity") is not None and sess["stderr_capacity"] < 65536:
            t = copy.deepcopy(s)
            t["session"]["stderr_capacity"] = 65536
            out.append(("64 KiB stderr pipe", t))
        if any(sess.get("thief", [])):
            t = copy.deepcopy(s)
            t["session"]["thief"] = []
            out.append(("daemon always wins the stdin race", t))
        for i, ln in enumerate(sess["lines"]):
            if ln.get("helpers") and any(p.get("kind") != "ok" for p in ln["helpers"]):
                t = copy.deepcopy(s)
                t["session"]["lines"][i].pop("helpers")
                out.append(("no faults in line %d" % i, t))
            if ln.get("term", "\n") != "\n":
                t = copy.deepcopy(s)
                t["session"]["lines"][i].pop("term")
                out.append(("line %d: LF" % i, t))
    return out


def minimise(spec, fails, budget=120, log=None):
    """fails(spec) -> bool (same violation class reproduced).  Returns (smaller spec, steps taken, runs used)"""
    runs = [0]
    steps = []

    def test(s):
        if runs[0] >= budget:
            return False
        runs[0] += 1
        return fails(s)

    cur = copy.deepcopy(spec)
    # 1. ddmin over the history
    units = list(_units(cur))
    n = 2
    while len(units) >= 2 and runs[0] < budget:
        size = max(1, len(units) // n)
        reduced = False
        # try removing each chunk (complement testing)
        for a in range(0, len(units), size):
            cand = units[:a] + units[a + size:]
            if not cand:
                continue
            if test(_with_units(cur, cand)):
                units = cand
                n = max(n - 1, 2)
                reduced = True
                steps.append("dropped %d request(s)" % size)
                break
        if not reduced:
            if size == 1:
                break
            n = min(len(units), n * 2)
    cur = _with_units(cur, units)
    # 2. simplifications to a fixed point
    changed = True
    while changed and runs[0] < budget:
        changed = False
        for name, cand in _simplifications(cur):
            if json.dumps(cand, sort_keys=True) == json.dumps(cur, sort_keys=True):
                continue
            if test(cand):
                cur = cand
                steps.append(name)
                changed = True
                break
    return cur, steps, runs[0]
