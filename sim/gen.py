"""Run-spec generators.  A spec is explicit JSON; executing it draws nothing, so a spec *is* the
replay file.  Everything here is a pure function of (VERIF_SEED, property, run index, corpus)."""
import json

from . import corpus as C
from .prng import Rng

BOOL_FIELDS = C.OPTION_FIELDS

# fault points enumerated by the C10 sweep (kind + parameters)
FAULT_POINTS = [
    {"kind": "slow", "d": 1.01},
    {"kind": "slow", "d": 3.0},
    {"kind": "slow", "d": 19.0},
    {"kind": "stall"},
    {"kind": "spawn_fail", "errno": 11},   # EAGAIN
    {"kind": "spawn_fail", "errno": 12},   # ENOMEM
    {"kind": "spawn_fail", "errno": 24},   # EMFILE
    {"kind": "spawn_fail", "errno": 2},    # ENOENT
    {"kind": "spawn_fail", "errno": 13},   # EACCES
    {"kind": "crash", "sig": 9, "k": 0, "d": 0.1},
    {"kind": "crash", "sig": 11, "k": 1, "d": 0.05},
    {"kind": "crash", "sig": 9, "k": 3, "d": 0.4},
    {"kind": "nonzero", "rc": 1, "text": "Fatal Python error: init_fs_encoding: failed to get the Python codec\n"},
    {"kind": "nonzero", "rc": 2, "text": {"hex": "ff fe 62 61 64 20 e9 0a".replace(" ", "")}},
    {"kind": "nonzero", "rc": 127, "text": ""},
    {"kind": "garbage_out", "b": "sitecustomize: loading plugins\n", "keep": True},
    {"kind": "garbage_out", "b": "Warning: something\n", "keep": False},
    {"kind": "garbage_out", "b": {"hex": "ff fe 00 01"}, "keep": True},
    {"kind": "garbage_out", "b": "{\"unterminated\": ", "keep": False},
    {"kind": "stderr_noise", "text": "<string>:3: DeprecationWarning: invalid escape sequence\n"},
    {"kind": "stderr_noise", "text": {"hex": "ff ff ff 0a"}},
    {"kind": "ok", "d": 0.95},
    # a process started by the constexpr body (os.system("... &"), subprocess.Popen) inherits the helper's
    # stdout/stderr pipes and outlives it: the pipes do not reach EOF when the helper ends or is killed
    {"kind": "orphan", "life": "inf", "d": 0.2},
    {"kind": "orphan", "life": 6.0, "d": 0.2},
    {"kind": "orphan", "life": 0.5, "d": 0.1},
    {"kind": "orphan", "life": "inf", "d": 0.2, "escaped": True},  # it left the helper's process group (setsid, double fork)
    # the function reports progress while it works: a little output again and again, never a silent second
    {"kind": "drip", "every": 0.4, "text": "working...\n", "stream": "out", "for": "inf", "d": 0.2},
    {"kind": "drip", "every": 0.7, "text": "still at it\n", "stream": "err", "for": "inf", "d": 0.3},
    {"kind": "drip", "every": 0.3, "text": ".", "stream": "err", "for": 2.5, "d": 0.2},
    # causes that do not go away when the helper is started again (a retry meets them again, and again)
    {"kind": "spawn_fail", "errno": 11, "persist": True},
    {"kind": "nonzero", "rc": 1, "text": "ImportError: cannot import name 'symbols'\n", "persist": True},
    {"kind": "slow", "d": 2.5, "persist": True},
    {"kind": "garbage_out", "b": "Loading site plugins...\n", "keep": True, "persist": True},
    {"kind": "crash", "sig": 9, "k": 0, "d": 0.3, "persist": True},
    # (appended in round 4; indices above are referred to elsewhere)
    # the result is printed but the helper cannot exit (the function left a non-daemon thread running)
    {"kind": "linger", "d": 0.2},
    # a descendant that ignores SIGTERM/SIGINT/SIGHUP: only SIGKILL to the group ends it
    {"kind": "orphan", "life": "inf", "d": 0.2, "ignores_term": True},
]
for _p in FAULT_POINTS:
    if isinstance(_p.get("b"), dict):
        _p["b"]["hex"] = _p["b"]["hex"].replace(" ", "")

OPTION_PALETTE = [
    {},
    {"compact": True},
    {"compact": False, "append_version": False},
    {"compact": True, "inline_functions": True, "remove_labels": True, "append_version": False},   # the suite's compact
    {"compact": False, "inline_functions": False, "remove_labels": False, "append_version": False},  # the suite's full
    {"inline_functions": False},
    {"remove_labels": True},
    {"original_code_as_comment": True, "generated_comments": True},
    {"tail_call_optimization": True, "inline_functions": False},
    {"use_push_pop_functions": True, "inline_functions": False},
    {"compact": True, "use_push_pop_functions": True, "tail_call_optimization": True, "inline_functions": False},
    {"generated_comments": True, "compact": True, "append_version": False},
]


def random_options(r, weird=False):
    if r.chance(0.6):
        o = dict(r.choice(OPTION_PALETTE))
    else:
        o = {}
        for f in BOOL_FIELDS:
            if r.chance(0.4):
                o[f] = r.chance(0.5)
    if weird and r.chance(0.5):
        for f in r.sample(BOOL_FIELDS, r.between(1, 3)):
            o[f] = r.choice([None, 0, 1, "yes", "", 2.5])
    return o


def clock_jumps(r, p=0.2):
    """wall-clock steps applied at successive reads of time.time() (empty list most of the time)"""
    if not r.chance(p):
        return []
    return [r.choice([0, 0, 0.5, -0.5, 3600, -3600, -86400 * 400, 86400 * 365 * 30, -1.8e9, 1e-9])
            for _ in range(r.between(1, 40))]


def sched_knobs(r):
    """scheduling decisions and pre-emption period - consumed only if the SUT runs more than one thread or an event
    loop with several things pending; a sequential SUT never looks at them"""
    if r.chance(0.5):
        return {"sched": [], "preempt_every": 0}
    return {"sched": [r.below(6) for _ in range(r.between(1, 60))], "preempt_every": r.choice([0, 300, 3000, 30000])}


def random_fault(r, kinds=None):
    pts = [p for p in FAULT_POINTS if p["kind"] != "ok" and (kinds is None or p["kind"] in kinds)]
    p = dict(r.choice(pts))
    if p["kind"] == "slow":
        p["d"] = round(r.uniform(1.01, 20.0), 2)
    if p["kind"] == "crash":
        p["k"] = r.between(0, 6)
    if p["kind"] == "orphan" and p["life"] != "inf":
        p["life"] = round(r.uniform(0.1, 25.0), 2)
    if p["kind"] == "drip":
        p["every"] = round(r.uniform(0.05, 0.95), 2)
    if not p.get("persist") and r.chance(0.15):
        p["persist"] = True
    return p


def helper_plans(r, n_inv, rate, kinds=None):
    plans = []
    for _ in range(n_inv):
        if r.chance(rate):
            plans.append(random_fault(r, kinds))
        else:
            plans.append({"kind": "ok", "d": round(r.uniform(0.05, 0.9), 2)})
    return plans


class Corpus:
    def __init__(self, repo_root):
        self.entries = C.build(repo_root, (0, 1))
        self.by_id = {e["id"]: e for e in self.entries}
        self.by_family = {}
        for e in self.entries:
            self.by_family.setdefault(e["family"], []).append(e)
        self.constexpr_entries = [e for e in self.entries if e.get("constexpr")]

    def pick(self, r, families):
        fams = [f for f in families if self.by_family.get(f)]
        f = r.choice(fams)
        return r.choice(self.by_family[f])


def _op(entry, options, **kw):
    op = {"entry": entry["id"], "src": entry["src"], "options": options}
    op.update(kw)
    return op


# ----------------------------------------------------------------------------------------------
# C10
SWEEP_CORE = ("K/same_call_body0", "K/two_calls", "K/hash_body", "K/returns_float", "K/prints", "K/spins", "K/lib_same_name",
              "K/first_prints_second_spins", "K/many_calls", "K/nested_constexpr", "R/example/constexpr", "R/case/constexpr_eval")
SWEEP_REDUCED_KINDS = [3, 4, 9, 13, 17, 22, 25, 26, 29, 31]  # indices into FAULT_POINTS: stall, spawn, crash, garbage(hex), orphan, drip, persist...


def c10_sweep_specs(corp, helper_counts, full=True):
    """ENUMERATED: constexpr entry x helper-invocation index x fault point.  full=True (thorough): every entry x every
    point; full=False (quick): every point for the core entries (one per helper behaviour), a reduced set of points
    (one per fault kind) for the others.  helper_counts: entry id -> helper invocations of a fault-free compile"""
    specs = []
    for e in corp.constexpr_entries:
        if "_shifted" in e["id"]:
            continue  # same evaluation script as the unshifted entry
        n_inv = max(1, helper_counts.get(e["id"], 1))
        core = full or e["id"].split("#")[0] in SWEEP_CORE
        points = FAULT_POINTS if core else [FAULT_POINTS[i] for i in SWEEP_REDUCED_KINDS if i < len(FAULT_POINTS)]
        for idx in range(n_inv):
            for fp in points:
                plans = [{"kind": "ok", "d": 0.2}] * idx + [dict(fp)]
                ops = [_op(e, {"append_version": False}, helpers=plans, faulty=True),
                       _op(e, {"append_version": False}, recheck=True)]
                specs.append({"property": "C10", "kind": "api", "hash_seed": 0, "origin": "sweep",
                              "knobs": {"step_clock": True}, "ops": ops,
                              "label": "%s@%d/%s" % (e["id"], idx, fp["kind"])})
    return specs


def typing_prefixes(r, text, k):
    if len(text) < 2:
        return [text]
    cuts = sorted(set(r.between(0, len(text)) for _ in range(k)))
    return [text[:c] for c in cuts]


def typing_walk(r, text, k):
    """a seeded insert/delete walk from the empty buffer towards `text`"""
    buf = ""
    out = []
    pos = 0
    for _ in range(k):
        a = r.below(10)
        if a < 7 and pos < len(text):
            step = r.between(1, 12)
            buf += text[pos:pos + step]
            pos += step
        elif a < 9 and buf:
            d = r.between(1, min(5, len(buf)))
            buf = buf[:-d]
            pos = max(0, pos - d)
        else:
            j = r.between(0, len(buf))
            buf = buf[:j] + r.choice(["(", ")", ":", "\n", "    ", "\"", "#", "=", ".", "@", "\t", "\\", "\x00", "é"]) + buf[j:]
        out.append(buf)
    return out


def c10_random_spec(seed, k, corp, hash_seeds):
    r = Rng(seed, "C10", k)
    fam_sets = [["K"], ["K", "E"], ["E"], ["O", "E"], ["K", "O"], ["R", "K"], ["T"], ["T"], ["K", "E", "O", "R", "M", "D", "L"]]
    fams = r.choice(fam_sets)
    fault_rate = r.choice([0.0, 0.3, 0.6, 1.0])
    weird = r.chance(0.4)
    n = r.weighted([(1, 3), (2, 3), (3, 2), (4, 1), (6, 1)])
    ops = []
    if fams == ["T"]:
        e = corp.pick(r, ["R", "K", "O", "L"])
        text = e["src"][""]
        texts = typing_prefixes(r, text, r.between(3, 12)) if r.chance(0.5) else typing_walk(r, text, r.between(5, 25))
        opts = random_options(r, weird)
        for t in texts:
            src = dict(e["src"])
            src[""] = t
            ops.append({"entry": e["id"] + "~typing", "src": src, "options": opts,
                        "helpers": helper_plans(r, 3, fault_rate * 0.3)})
    else:
        for _ in range(n):
            e = corp.pick(r, fams)
            op = _op(e, random_options(r, weird))
            op["opt_style"] = r.weighted([("obj", 5), ("dict", 3), ("none", 1)])
            if op["opt_style"] == "none":
                op["options"] = {}
            op["src_style"] = "str" if (len(e["src"]) == 1 and r.chance(0.4)) else "dict"
            if e.get("constexpr"):
                op["helpers"] = helper_plans(r, 3, fault_rate)
                if any(p["kind"] != "ok" for p in op["helpers"]):
                    op["faulty"] = True
            ops.append(op)
            if op.get("faulty") and r.chance(0.6):
                clean = dict(op)
                clean.pop("helpers", None)
                clean.pop("faulty", None)
                clean["recheck"] = True
                ops.append(clean)
    return {"property": "C10", "kind": "api", "hash_seed": r.choice(hash_seeds), "origin": "random", "k": k,
            "knobs": dict({"step_clock": True, "do_timing": r.chance(0.1), "clock_jumps": clock_jumps(r)}, **sched_knobs(r)), "ops": ops}


def c10_typing_all_specs(corp, chunk=24):
    """ENUMERATED (thorough): every prefix of every repository program, in editor order"""
    specs = []
    for e in corp.by_family.get("R", []) + corp.by_family.get("L", []):
        text = e["src"][""]
        prefixes = [text[:i] for i in range(0, len(text) + 1)]
        for a in range(0, len(prefixes), chunk):
            ops = []
            for t in prefixes[a:a + chunk]:
                src = dict(e["src"])
                src[""] = t
                ops.append({"entry": e["id"] + "~prefix", "src": src, "options": {"append_version": False}})
            specs.append({"property": "C10", "kind": "api", "hash_seed": 0, "origin": "typing-all",
                          "knobs": {"step_clock": True}, "ops": ops, "label": "%s[%d:%d]" % (e["id"], a, a + chunk)})
    return specs


# ----------------------------------------------------------------------------------------------
# C11
_SIBLINGS = [("K/same_call_body0", "K/same_call_body1"), ("K/same_call_body1", "K/same_call_body0"),
             ("K/same_call_body0", "K/same_call_body0#1"), ("K/same_body_args", "K/same_body_args#1"),
             ("K/lib_same_name", "K/lib_same_name#1"), ("K/two_calls", "K/two_calls#1"),
             ("O/dir_compact", "O/plain"), ("O/dir_multi", "O/plain"), ("O/dir_tco", "O/plain"),
             ("O/dir_comments_all", "O/plain"), ("O/dir_several_lines", "M/enum_operand"),
             ("D/alias_true", "D/plain_then"), ("D/alias_name", "D/plain_then"), ("D/alias_db", "M/int_small"),
             ("D/stack_ref", "D/stack_self"), ("D/define", "D/define#1"), ("L/libs3", "L/libs2"), ("L/libs4", "L/alias"),
             ("K/raises_shifted", "K/raises"), ("K/raises", "K/raises_shifted"), ("K/raises_custom_shifted", "K/raises_custom"),
             ("K/undefined_name_shifted", "K/undefined_name"), ("K/sys_exit3_shifted", "K/sys_exit3"), ("K/spins_shifted", "K/spins"),
             ("K/same_call_body0_shifted", "K/same_call_body0"), ("K/returns_nan_shifted", "K/returns_nan"),
             ("K/nested_constexpr", "K/nested_constexpr#1"), ("K/nested_constexpr#1", "K/nested_constexpr"),
             ("D/generic_devices_numeric", "M/batch_positive_hash_compact"), ("D/generic_devices_numeric2", "M/batch_positive_hash_compact"),
             ("D/generic_devices_numeric", "M/int_large"), ("M/batch_positive_hash_compact", "D/generic_devices_numeric"),
             ("O/dir_multi", "M/batch_positive_hash"), ("O/dir_compact", "D/plain_then"),
             ("D/defines_names", "D/uses_undefined_names"), ("D/defines_names", "D/uses_skipped_def"), ("D/defines_names", "D/uses_skipped_def2"),
             ("D/sp_assign", "D/sp_read"), ("D/sp_augment", "D/sp_assign"), ("D/ra_assign", "D/explicit_regs"), ("D/sp_assign", "D/explicit_regs"),
             ("K/same_call_body0", "E/long_expr"), ("E/deep_if", "E/long_expr"), ("E/long_expr", "E/deep_parens"), ("K/recursive_body", "E/long_expr"),
             ("E/long_expr", "R/example/one_file_to_rule_them_all"), ("K/big_output", "K/same_call_body0"),
             ("E/many_lines", "E/long_expr"), ("R/example/one_file_to_rule_them_all", "E/long_expr"), ("E/many_lines", "E/deep_parens"),
             ("K/same_call_body0", "K/sleeps_medium"), ("K/sleeps_medium", "K/same_call_body0"), ("K/sleeps_short", "K/sleeps_medium"),
             ("D/define_call", "D/names_like_defines"), ("D/define", "D/names_like_defines"), ("D/names_like_constants", "M/float"),
             ("L/unused_extra", "L/libs2"), ("L/unused_extra", "L/unused_extra#1"), ("M/prefix_names", "M/prefix_names_pragma")]


def c11_spec(seed, k, corp, hash_seeds, soak=False):
    """soak=True: a long history (60-300 requests) over a small pool of distinct requests - what a game session
    looks like to the one long-lived daemon process; cheap, because references are per distinct request"""
    r = Rng(seed, "C11soak" if soak else "C11", k)
    all_f = ["R", "M", "K", "O", "D", "L", "E"]
    nf = r.weighted([(1, 2), (2, 4), (3, 3), (7, 2)])
    fams = all_f if nf == 7 else r.sample(all_f, nf)
    fault_rate = r.choice([0.0, 0.0, 0.0, 0.2])
    length = r.weighted([(2, 4), (3, 4), (4, 3), (6, 3), (9, 2), (14, 1), (22, 1), (30, 1)])
    pool = None
    if soak:
        length = r.weighted([(60, 3), (120, 2), (300, 1)])
        pool = [corp.pick(r, fams) for _ in range(r.between(4, 10))]
    palette = [random_options(r) for _ in range(r.between(1, 2 if soak else 4))]
    shared_options = random_options(r)
    style_w = [("obj", r.between(1, 6)), ("dict", r.between(0, 4)), ("none", r.between(0, 2)), ("shared", r.between(0, 5))]
    sib = dict()
    for a, b in _SIBLINGS:
        sib.setdefault(a, []).append(b)
    ops = []
    used = []
    opening = list(r.choice(_SIBLINGS)) if r.chance(0.35) else []
    streak_style = None
    for i in range(length):
        e = None
        if opening:
            # the first requests of a fresh process decide how lazily initialised state gets initialised
            e = corp.by_id.get(opening.pop(0))
        if e is None and used and r.chance(0.35):
            prev = r.choice(used)
            if r.chance(0.5):
                op = json.loads(json.dumps(prev))  # exact repeat (same source, same options)
                op.pop("helpers", None)
                op.pop("faulty", None)
                if op.get("entry") in corp.by_id and corp.by_id[op["entry"]].get("constexpr") and fault_rate:
                    op["helpers"] = helper_plans(r, 3, fault_rate)
                ops.append(op)
                continue
            e = corp.by_id.get(prev["entry"])
        if e is None and ops and r.chance(0.3):
            cand = sib.get(ops[-1]["entry"])
            if cand:
                e = corp.by_id.get(r.choice(cand))
        if e is None:
            e = r.choice(pool) if pool else corp.pick(r, fams)
        style = r.weighted(style_w)
        if streak_style is not None and r.chance(0.6):
            style = streak_style  # the same caller tends to call the same way
        streak_style = style if style in ("none", "shared", "dict") else None
        if style == "shared":
            opts = shared_options
        elif style == "none":
            opts = {}
        else:
            opts = r.choice(palette)
        op = _op(e, dict(opts), opt_style=style)
        op["src_style"] = r.weighted([("dict", 5), ("str", 3 if len(e["src"]) == 1 else 0), ("shared", 2)])
        if op["src_style"] == "shared":
            op["src_id"] = e["id"]
        if e.get("constexpr") and fault_rate:
            op["helpers"] = helper_plans(r, 3, fault_rate)
        ops.append(op)
        used.append(op)
    return {"property": "C11", "kind": "api", "hash_seed": r.choice(hash_seeds), "origin": "soak" if soak else "random", "k": k,
            "knobs": dict({"step_clock": r.chance(0.15), "do_timing": False, "clock_jumps": clock_jumps(r)}, **sched_knobs(r)),
            "shared_options": shared_options, "ops": ops}


# ----------------------------------------------------------------------------------------------
# C14
def c14_spec(seed, k, corp, hash_seeds, soak=False):
    r = Rng(seed, "C14soak" if soak else "C14", k)
    all_f = ["R", "M", "K", "O", "E", "D", "L"]
    fams = r.sample(all_f, r.between(1, 4))
    junk_rate = r.choice([0.0, 0.15, 0.4, 0.8])
    fault_rate = r.choice([0.0, 0.0, 0.25])
    mode = r.weighted([("lockstep", 5), ("pipelined", 5)])
    window = r.between(2, 8) if mode == "pipelined" else 1
    length = r.weighted([(1, 3), (2, 4), (3, 4), (5, 3), (8, 2), (14, 1), (25, 1), (40, 1)])
    pool = None
    if soak:
        length = r.weighted([(60, 3), (120, 2), (300, 1)])
        pool = [corp.pick(r, fams) for _ in range(r.between(3, 8))]
        junk_rate = min(junk_rate, 0.4)
    palette = [random_options(r) for _ in range(r.between(1, 2 if soak else 3))]
    junk = C.family_J(r.below(2))
    lines = []
    prev_req = None
    for i in range(length):
        x = r.unit()
        if x < junk_rate:
            jid, raw = r.choice(junk)
            ln = {"kind": "junk", "entry": jid, "raw": raw}
            if isinstance(raw, dict):
                ln["raw"] = bytes.fromhex(raw["hex"]).decode("utf-8", "surrogateescape")
        elif x < junk_rate + 0.05:
            ln = {"kind": "empty", "entry": "empty", "raw": ""}
        elif x < junk_rate + 0.08 and mode == "pipelined":
            ln = {"kind": "blank", "entry": "blank", "raw": r.choice([" ", "\t", "   \t ", "\x0b", " "])}
        else:
            if prev_req is not None and r.chance(0.25):
                ln = json.loads(json.dumps(prev_req))  # the editor resends the same buffer
                ln.pop("helpers", None)
            else:
                e = r.choice(pool) if pool else corp.pick(r, fams)
                opts = dict(r.choice(palette))
                extra = {"lineno": r.between(-1, 40), "column": r.between(-1, 80)} if r.chance(0.5) else None
                ln = {"kind": "request", "entry": e["id"], "raw": C.request_line(e["src"], opts, extra),
                      "constexpr": bool(e.get("constexpr"))}
            if ln.get("constexpr") and fault_rate:
                ln["helpers"] = helper_plans(r, 3, fault_rate)
            prev_req = ln
        if r.chance(0.15):
            ln["term"] = "\r\n"
        lines.append(ln)
    end = r.weighted([("exit", 5), ("eof", 4), ("eof_midline", 2), ("exit_then_more", 1)])
    sess = {"lines": lines, "client": {"mode": mode, "window": window, "eager_end": r.chance(0.5) if mode == "pipelined" else False}}
    if end == "eof_midline":
        # one more request, torn somewhere inside
        e = corp.pick(r, fams)
        raw = C.request_line(e["src"], {})
        lines.append({"kind": "torn", "entry": e["id"], "raw": raw, "torn": r.between(1, max(1, len(raw) - 1))})
        sess["end"] = "eof"
    else:
        sess["end"] = end
        if end == "exit_then_more":
            sess["after_exit"] = [C.request_line({"": C.HDR + "db.Setting = 99\n"}), "junk after exit"]
    cm = r.weighted([("whole", 4), ("fixed", 3), ("cuts", 3)])
    if cm == "fixed":
        sess["chunking"] = {"mode": "fixed", "n": r.choice([1, 2, 3, 5, 7, 64, 1000, 4096])}
    elif cm == "cuts":
        sess["chunking"] = {"mode": "cuts", "cuts": [r.between(1, r.choice([3, 40, 600, 9000])) for _ in range(r.between(1, 30))]}
    else:
        sess["chunking"] = {"mode": "whole"}
    if r.chance(0.3):
        sess["short_writes"] = [r.between(1, r.choice([1, 5, 100, 5000])) for _ in range(r.between(1, 12))]
    if r.chance(0.2):
        sess["exit_term"] = "\r\n"
    sess["stdin_errors"] = "surrogateescape"
    has_raw_bytes = any("\udc80" <= ch <= "\udcff" for ln in lines for ch in ln["raw"])
    if not has_raw_bytes and r.chance(0.3):
        sess["stdin_errors"] = "strict"
    sess["thief"] = [r.chance(0.5) for _ in range(6)]
    do_timing = r.chance(0.2)
    if not do_timing:
        # capacity of the never-drained stderr pipe: 4 KiB (anonymous pipe as .NET creates it on Windows) or
        # 64 KiB (Linux).  With the timing knob on the SUT prints by design, so the sink is unbounded there.
        sess["stderr_capacity"] = r.choice([4096, 65536])
    return {"property": "C14", "kind": "daemon", "hash_seed": r.choice(hash_seeds), "origin": "soak" if soak else "random", "k": k,
            "knobs": dict({"step_clock": r.chance(0.1), "do_timing": do_timing, "clock_jumps": clock_jumps(r)}, **sched_knobs(r)),
            "session": sess}


# ----------------------------------------------------------------------------------------------
# Directed (enumerated) batches: small, fixed, complete over what they name.  They complement the seeded search the way
# the C10 fault sweep does: every corpus entry at least once, every known-related pair in both orders and under every
# calling style, every name/module-sensitive entry under every hash seed, every malformed line once, and a handful of
# fixed thread schedules (only a SUT that runs more than one thread ever consumes those).
_STALL_PLANS = [[1] * 40, [0, 1] * 20, [1, 0] * 20, [0, 0, 1, 1] * 10, [2, 1, 0] * 14, [0, 1, 1, 1] * 10]


def _chunks(seq, n):
    return [seq[i:i + n] for i in range(0, len(seq), n)]


def c10_directed_specs(corp, hash_seeds):
    specs = []
    base = [e for e in corp.entries if e.get("n", 0) == 0]
    for ci, chunk in enumerate(_chunks(base, 12)):
        ops = [_op(e, {"append_version": False} if (ci + j) % 2 else {}) for j, e in enumerate(chunk)]
        specs.append({"property": "C10", "kind": "api", "hash_seed": 0, "origin": "directed", "label": "corpus-pass-%d" % ci,
                      "knobs": {"step_clock": True}, "ops": ops})
    # nesting depth swept across the interpreter's recursion limit: whatever the depth at which rendering or walking the
    # tree gives up, compile_code must return a verdict (no reference is involved, so the stack-depth sensitivity of the
    # outcome - risk B2 - does not matter here: raising is never right)
    shapes = [("class-body", lambda n: C.HDR + "class A:\n    x = " + " + ".join(["1"] * n) + "\n"),
              ("lambda", lambda n: C.HDR + "def f():\n    g = lambda: " + " + ".join(["1"] * n) + "\nf()\n"),
              ("subscript-target", lambda n: C.HDR + "x = d0.Setting\nx.y[" + " + ".join(["x"] * n) + "] = 1\n"),
              ("call-args", lambda n: C.HDR + "db.Setting = nofunc(" + " + ".join(["x"] * n) + ")\n"),
              ("parens", lambda n: C.HDR + "db.Setting = nosuch" + "(" * (n // 4) + "1" + ")" * (n // 4) + "\n")]
    for name, mk in shapes:
        for lo in (150, 420, 690):
            ops = [{"entry": "E/depth-%s-%d" % (name, n), "src": {"": mk(n)}, "options": {"append_version": False}} for n in range(lo, lo + 270, 30)]
            specs.append({"property": "C10", "kind": "api", "hash_seed": 0, "origin": "directed", "label": "depth-window %s %d.." % (name, lo),
                          "knobs": {"step_clock": True}, "ops": ops})
    # the same runaway / failing constexpr program compiled again and again in one process (what the editor does while
    # the user keeps typing elsewhere in the file): the n-th compile must be as prompt as the first
    for ident in ("K/spins", "K/sleeps_long", "K/raises", "K/first_prints_second_spins"):
        e = corp.by_id.get(ident)
        if e is not None:
            specs.append({"property": "C10", "kind": "api", "hash_seed": 0, "origin": "directed", "label": "again-and-again %s" % ident,
                          "knobs": {"step_clock": True}, "ops": [_op(e, {"append_version": False}) for _ in range(7)]})
    e = corp.by_id.get("K/same_call_body0")
    if e is not None:
        for fp in (FAULT_POINTS[3], FAULT_POINTS[1], FAULT_POINTS[22]):  # stall, slow, orphan - every time
            specs.append({"property": "C10", "kind": "api", "hash_seed": 0, "origin": "directed", "label": "again-and-again fault %s" % fp["kind"],
                          "knobs": {"step_clock": True}, "ops": [_op(e, {"append_version": False}, helpers=[dict(fp)], faulty=True) for _ in range(7)]})
        # fixed schedules for a compile that arms a SIGALRM / starts threads (consumed only then)
        for pi, plan in enumerate(([3] * 30, [1] * 30, [0, 3] * 15, [2, 1, 3] * 10)):
            for ident in ("K/same_call_body0", "K/spins", "M/int_small", "E/many_lines"):
                e2 = corp.by_id.get(ident)
                if e2 is not None:
                    specs.append({"property": "C10", "kind": "api", "hash_seed": 0, "origin": "directed", "label": "schedule-%d %s" % (pi, ident),
                                  "knobs": {"step_clock": True, "sched": plan, "preempt_every": (300, 3000)[pi % 2]},
                                  "ops": [_op(e2, {"append_version": False}), _op(e2, {"append_version": False})]})
    # programs that compile to nothing, or to long lines only, under the options that decorate the output
    bare = [corp.by_id[i] for i in ("E/empty", "E/only_comment", "E/only_import", "E/only_ws", "E/string_only", "E/pass_only", "E/constexpr_no_call",
                                    "E/very_long_line", "E/unicode_comment", "M/int_small", "R/example/one_file_to_rule_them_all") if i in corp.by_id]
    deco = [{}, {"compact": True}, {"original_code_as_comment": True}, {"original_code_as_comment": True, "generated_comments": True, "compact": True},
            {"remove_labels": True, "append_version": True}]
    for oi, o in enumerate(deco):
        specs.append({"property": "C10", "kind": "api", "hash_seed": 0, "origin": "directed", "label": "bare-output-%d" % oi,
                      "knobs": {"step_clock": True}, "ops": [_op(e, dict(o)) for e in bare]})
    for a, b in _SIBLINGS:
        if a in corp.by_id and b in corp.by_id and (a.startswith("K/") or b.startswith("K/")):
            ops = [_op(corp.by_id[a], {"append_version": False}), _op(corp.by_id[b], {"append_version": False}),
                   _op(corp.by_id[a], {"append_version": False})]
            specs.append({"property": "C10", "kind": "api", "hash_seed": 0, "origin": "directed", "label": "pair %s -> %s" % (a, b),
                          "knobs": {"step_clock": True}, "ops": ops})
    return specs


def c11_directed_specs(corp, hash_seeds):
    specs = []
    for a, b in _SIBLINGS:
        if a not in corp.by_id or b not in corp.by_id:
            continue
        for style in ("obj", "none", "shared"):
            ops = []
            for ident in (a, b, a):
                op = _op(corp.by_id[ident], {}, opt_style=style)
                op["src_style"] = "shared" if style == "shared" else "dict"
                if op["src_style"] == "shared":
                    op["src_id"] = ident
                ops.append(op)
            specs.append({"property": "C11", "kind": "api", "hash_seed": 0, "origin": "directed",
                          "label": "pair %s -> %s (%s)" % (a, b, style), "knobs": {"step_clock": False, "do_timing": False},
                          "shared_options": {}, "ops": ops})
    # every corpus entry once, first things in a process, at a hash seed other than the reference's
    base = [e for e in corp.entries if e.get("n", 0) == 0]
    nz = [h for h in hash_seeds if h] or [0]
    for ci, chunk in enumerate(_chunks(base, 12)):
        ops = []
        for e in chunk:
            op = _op(e, {}, opt_style="obj")
            op["src_style"] = "dict"
            ops.append(op)
        specs.append({"property": "C11", "kind": "api", "hash_seed": nz[ci % len(nz)], "origin": "directed", "label": "corpus-pass-%d" % ci,
                      "knobs": {"step_clock": False, "do_timing": False}, "shared_options": {}, "ops": ops})
    # every corpus entry three times in a row (a compilation that modifies something it got by reference - a cached constexpr
    # value, a table, a pool - shows when the same request comes again)
    for ci, chunk in enumerate(_chunks(base, 4)):
        ops = []
        for e in chunk:
            for _ in range(3):
                op = _op(e, {}, opt_style="obj")
                op["src_style"] = "dict"
                ops.append(op)
        specs.append({"property": "C11", "kind": "api", "hash_seed": 0, "origin": "directed", "label": "thrice-%d" % ci,
                      "knobs": {"step_clock": False, "do_timing": False}, "shared_options": {}, "ops": ops})
    failing = [i for i in ("E/syntax", "E/syntax_indent", "E/unsupported_class", "E/break_toplevel", "E/recursion_direct", "E/undefined_name",
                           "E/out_of_registers", "E/deep_if", "E/long_expr", "E/huge_pow", "E/div_zero_const", "E/str_too_long", "E/bad_attr",
                           "E/missing_library", "E/library_syntax_error", "E/library_error_far_line", "E/lua", "E/nul_byte", "E/reassign_error",
                           "D/reassign_error", "K/raises", "K/raises_custom", "K/spins", "K/sys_exit3", "K/returns_nan", "K/returns_str",
                           "K/undefined_name", "K/recursive_body", "O/compact+syntax", "O/multi+dedent", "O/dir_dunder") if i in corp.by_id]
    probes = [i for i in ("M/enum_operand", "M/hash_str", "M/int_large", "M/batch_positive_hash", "K/same_call_body0", "D/alias_true",
                          "L/libs2", "O/plain", "M/prefix_names") if i in corp.by_id]
    for fi, f in enumerate(failing):
        for style, fopts in (("obj", {"compact": True, "remove_labels": True}), ("shared", {})):
            ops = []
            for ident in [probes[fi % len(probes)], f] + probes:
                opts = fopts if ident == f else {}
                op = _op(corp.by_id[ident], dict(opts), opt_style=style)
                op["src_style"] = "dict"
                ops.append(op)
            specs.append({"property": "C11", "kind": "api", "hash_seed": 0, "origin": "directed", "label": "after-failure %s (%s)" % (f, style),
                          "knobs": {"step_clock": False, "do_timing": False}, "shared_options": {}, "ops": ops})
    # a helper fault (the environment's doing, transient) in one request; the same request and a related one afterwards
    # must be compiled as in a fresh process - a failure must not be remembered
    kinds = [FAULT_POINTS[i] for i in (1, 3, 4, 9, 12, 16, 22, 26, 33) if i < len(FAULT_POINTS)]
    for ident in ("K/same_call_body0", "K/two_calls", "K/hash_body", "K/lib_same_name", "R/example/constexpr"):
        e = corp.by_id.get(ident)
        if e is None:
            continue
        for ki, fp in enumerate(kinds):
            style = ("obj", "shared", "none")[ki % 3]
            ops = []
            for j in range(3):
                op = _op(e, {}, opt_style=style)
                op["src_style"] = "dict"
                if j == 0:
                    op["helpers"] = [dict(fp)]
                ops.append(op)
            other = corp.by_id.get("K/same_call_body1")
            if other is not None:
                ops.append(_op(other, {}, opt_style=style, src_style="dict"))
            specs.append({"property": "C11", "kind": "api", "hash_seed": 0, "origin": "directed", "label": "after-helper-fault %s/%s" % (ident, fp["kind"]),
                          "knobs": {"step_clock": False, "do_timing": False}, "shared_options": {}, "ops": ops})
    # compact then verbose, for everything whose text depends on the output mode
    modes = [e for e in corp.entries if e.get("n", 0) == 0 and e["family"] in ("M", "D")]
    for ci, chunk in enumerate(_chunks(modes, 8)):
        ops = []
        for e in chunk:
            for o in ({"compact": True}, {}):
                op = _op(e, dict(o), opt_style="obj")
                op["src_style"] = "dict"
                ops.append(op)
        specs.append({"property": "C11", "kind": "api", "hash_seed": 0, "origin": "directed", "label": "compact-then-verbose-%d" % ci,
                      "knobs": {"step_clock": False, "do_timing": False}, "shared_options": {}, "ops": ops})
    # everything that names modules, functions or devices, first thing in a process, under every hash seed
    sens = [e for e in corp.entries if e.get("n", 0) == 0 and (e["family"] in ("L", "D") or e["id"].startswith(("M/prefix", "M/batch", "M/named", "K/lib", "R/script", "E/library")))]
    for h in hash_seeds:
        for ci, chunk in enumerate(_chunks(sens, 10)):
            ops = []
            for e in chunk:
                op = _op(e, {"remove_labels": True, "inline_functions": False} if ci % 2 else {}, opt_style="obj")
                op["src_style"] = "dict"
                ops.append(op)
            specs.append({"property": "C11", "kind": "api", "hash_seed": h, "origin": "directed", "label": "names@%d-%d" % (h, ci),
                          "knobs": {"step_clock": False, "do_timing": False}, "shared_options": {}, "ops": ops})
    return specs


def c14_directed_specs(corp, hash_seeds):
    specs = []

    def sess(lines, label, client=None, end="exit", knobs=None, **kw):
        s = {"lines": lines, "client": client or {"mode": "lockstep", "window": 1}, "end": end, "chunking": {"mode": "whole"},
             "stdin_errors": "surrogateescape", "stderr_capacity": 4096, "thief": []}
        s.update(kw)
        kn = {"step_clock": False, "do_timing": False}
        kn.update(knobs or {})
        specs.append({"property": "C14", "kind": "daemon", "hash_seed": 0, "origin": "directed", "label": label, "knobs": kn, "session": s})

    def req(e, opts=None, **kw):
        ln = {"kind": "request", "entry": e["id"], "raw": C.request_line(e["src"], opts or {}), "constexpr": bool(e.get("constexpr"))}
        ln.update(kw)
        return ln

    ks = [e for e in corp.by_family.get("K", []) if e.get("n", 0) == 0 and "_shifted" not in e["id"]]
    for ci, chunk in enumerate(_chunks(ks, 14)):
        sess([req(e) for e in chunk], "K-pass-%d" % ci)
        # pipelined: later requests are already waiting in the pipe while a helper runs
        # (delivered in small pieces, so that most of it is still in the pipe - not in the daemon's buffer - then)
        sess([req(e) for e in chunk], "K-pass-%d-pipelined" % ci, client={"mode": "pipelined", "window": 6, "eager_end": False},
             thief=[True, False, True, True, False, True], chunking={"mode": "fixed", "n": 200})
    # the same under helper faults: every fault point meets the daemon at least once, each followed by a fault-free request
    simple = [e for e in ks if e["id"] in ("K/same_call_body0", "K/same_body_args", "K/hash_body", "K/returns_float", "K/prints", "K/two_calls")]
    pts = [p for p in FAULT_POINTS if p["kind"] != "ok"]
    for ci, chunk in enumerate(_chunks(pts, 9)):
        lines = []
        for j, fp in enumerate(chunk):
            e = simple[(ci + j) % len(simple)]
            lines.append(req(e, helpers=[dict(fp)]))
            lines.append(req(simple[(ci + j + 1) % len(simple)]))
        sess(lines, "K-faults-%d" % ci)
        sess([dict(l) for l in lines], "K-faults-%d-pipelined" % ci, client={"mode": "pipelined", "window": 3, "eager_end": True}, end="eof")
    junk = []
    for jid, raw in C.family_J(0):
        if isinstance(raw, dict):
            raw = bytes.fromhex(raw["hex"]).decode("utf-8", "surrogateescape")
        junk.append({"kind": "junk", "entry": jid, "raw": raw})
    plain = [corp.by_id[i] for i in ("M/int_small", "M/enum_operand", "O/plain", "D/define") if i in corp.by_id]
    for ci, chunk in enumerate(_chunks(junk, 12)):
        lines = []
        for j, ln in enumerate(chunk):
            lines.append(ln)
            if j % 3 == 2:
                lines.append(req(plain[(ci + j) % len(plain)]))
        sess(lines, "J-pass-%d" % ci)
        sess([dict(l) for l in lines], "J-pass-%d-pipelined" % ci, client={"mode": "pipelined", "window": 4, "eager_end": True}, end="eof")
    # line terminators and empty lines
    crlf = []
    for j, e in enumerate(plain + plain):
        crlf.append(req(e, term="\r\n"))
        if j % 2:
            crlf.append({"kind": "empty", "entry": "empty", "raw": "", "term": "\r\n"})
    sess(crlf, "crlf-lockstep", exit_term="\r\n")
    sess([dict(l) for l in crlf], "crlf-pipelined-exit", client={"mode": "pipelined", "window": 4, "eager_end": True}, exit_term="\r\n")
    sess([dict(l) for l in crlf], "crlf-pipelined-eof", client={"mode": "pipelined", "window": 3, "eager_end": False}, end="eof")
    # the same code under different options, interleaved (a reply must depend on the whole request)
    optsets = [{}, {"compact": True}, {"remove_labels": True, "inline_functions": False}, {"compact": True, "append_version": False}]
    var = []
    for j in range(12):
        e = plain[j % len(plain)]
        var.append(req(e, optsets[(j // len(plain) + j) % len(optsets)]))
    sess(var, "same-code-other-options")
    sess([dict(l) for l in var], "same-code-other-options-pipelined", client={"mode": "pipelined", "window": 5, "eager_end": False})
    # large requests and large replies, with short writes on stdout
    big = [corp.by_id[i] for i in ("E/many_lines", "E/very_long_line", "R/example/one_file_to_rule_them_all", "E/long_expr", "M/int_small") if i in corp.by_id]
    huge = [l for l in junk if l["entry"] in ("J/huge_line", "J/huge_valid")]
    lines = [req(e, {"original_code_as_comment": True, "generated_comments": True}) for e in big] + huge + [req(plain[0])]
    sess(lines, "big-lockstep", short_writes=[1, 5, 100, 4096, 1, 70000, 3, 3, 3])
    sess([dict(l) for l in lines], "big-pipelined", client={"mode": "pipelined", "window": 8, "eager_end": True}, end="eof",
         chunking={"mode": "fixed", "n": 4096})
    sess([req(plain[j % len(plain)], optsets[j % 2]) for j in range(6)], "burst-then-exit",
         client={"mode": "pipelined", "window": 8, "eager_end": True}, end="exit")
    sess([req(plain[j % len(plain)]) for j in range(5)], "burst-then-exit-more",
         client={"mode": "pipelined", "window": 8, "eager_end": True}, end="exit_then_more",
         after_exit=[C.request_line({"": C.HDR + "db.Setting = 99\n"}), "junk after exit"])
    # a line of more than a mebibyte (read limits, block readers)
    giant = [{"kind": "junk", "entry": "J/giant_line", "raw": "A" * (2 * 1024 * 1024 + 17)},
             {"kind": "request", "entry": "J/giant_valid", "constexpr": False,
              "raw": C.request_line({"": C.HDR + "# " + "z" * 1100000 + "\ndb.Setting = 77\n"})}]
    sess([req(plain[0])] + giant + [req(plain[1])], "giant-lines")
    # fixed thread schedules (consumed only by a daemon that runs more than one thread / several pending callbacks)
    three = [req(e) for e in plain[:3]]
    for pi, plan in enumerate(_STALL_PLANS):
        for pe in (300, 3000):
            sess([dict(l) for l in three], "schedule-%d/%d" % (pi, pe), knobs={"sched": plan, "preempt_every": pe})
    return specs


def c11_many_distinct_specs(corp, n=300):
    """THOROUGH: one process compiles n programs with n distinct constexpr evaluations (bounded caches, eviction,
    counters), then the first ones again"""
    def src(i):
        return {"": C.HDR + "@constexpr\ndef scale(x):\n    return x * 3 + 1\ndb.Setting = scale(%d)\n" % i}
    ops = [{"entry": "K/distinct-%d" % i, "src": src(i), "options": {}, "opt_style": "obj", "src_style": "dict"} for i in range(n)]
    ops += [dict(ops[i]) for i in (0, 1, n // 2, n - 1, 0)]
    return [{"property": "C11", "kind": "api", "hash_seed": 0, "origin": "directed", "label": "many-distinct-constexpr",
             "knobs": {"step_clock": False, "do_timing": False}, "shared_options": {}, "ops": ops}]
