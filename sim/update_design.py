"""python -m sim.update_design : rewrite DESIGN.md section 10.7 from /verif/sensitivity/results-*.json"""
import io
import os
import sys
from contextlib import redirect_stdout

from . import senstable

VERIF = os.path.dirname(os.path.dirname(os.path.abspath(__file__)))

INTRO = """### 10.7 Sensitivity results

`./check sensitivity` applies each change to a scratch copy of /repo's working tree (removed afterwards) and runs the
**registered quick check** of the property the change targets against the copy, exactly as MANIFEST.json registers it
(`./check <id> --tier quick`, stub validation off, evidence and replays redirected). *caught* = the check exits 1 with a
VIOLATION line; for the behaviour-preserving rewrites under `legit/` the expectation is the opposite: *quiet-ok* = exit
0, *FALSE-ALARM* = exit 1, *harness-error* = exit 2 (an unmodelled seam, see §10.12). The repository's own 94 tests pass
with every change (confirmed on an otherwise idle machine, `sensitivity/tests.json` and each `seeded/*/meta.json`).
Mutant runs stop at the first violating run (`VERIF_EARLY_STOP=1`); the `legit/` runs are complete runs at half the
quick wall budget (`VERIF_BUDGET_SCALE=0.5`; the directed batches run first and are always complete). Built-in
changes (`c1x-*`) are one-line edits listed in `sim/sensitivity.py`; `seeded/*` were written by sub-agents that saw
only the property text (`own-*`: written here). Correction to §9.2: the "output mode never reset" mutant does *not*
keep the test suite green (`test_examples[clock]` fails) and was dropped; so was "helper inherits stdout" (same reason).

"""


def main():
    buf = io.StringIO()
    with redirect_stdout(buf):
        senstable.main()
    p = os.path.join(VERIF, "DESIGN.md")
    with open(p) as f:
        s = f.read()
    a = s.index("### 10.7 Sensitivity results")
    b = s.index("### 10.8 ")
    s = s[:a] + INTRO + buf.getvalue() + "\n" + s[b:]
    with open(p, "w") as f:
        f.write(s)
    print("DESIGN.md 10.7 rewritten (%d table lines)" % buf.getvalue().count("\n"))


if __name__ == "__main__":
    sys.exit(main())
