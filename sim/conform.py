"""Stub-versus-real conformance (DESIGN 2.8): the simulator's three stand-ins are compared with the real thing.

  (a) helper   every distinct generated constexpr evaluation script the runs have seen is also executed by a real
               `python -c <script>` (stdin=/dev/null, as the repository starts it); exit status, stdout and
               "stderr empty?" must equal the intrinsic outcome the helper stub computed in a zygote fork.
  (b) api      ref(request) - computed in a fork of a primed, never-compiled interpreter at hash seed 0 - is
               recomputed as the first thing a truly fresh interpreter does (no priming, other hash seeds).
  (c) daemon   simulated daemon sessions (no injected helper fault) are replayed against a real
               `python -m stationeers_pytrapic.mod_daemon` process on real pipes; its fd-1 bytes must parse to the
               same reply sequence, it must exit with status 0, and what it wrote to fd 2 is compared for emptiness.

A disagreement means a stub misrepresents the code: HARNESS-ERROR (exit 2), never a violation.  Real processes
have real timing: a real helper that needs more than the repository's 1 s timeout on a loaded machine makes a
comparison inconclusive (retried, then counted as `inconclusive`, never as a mismatch)."""
import base64
import json
import os
import subprocess
import sys
import tempfile
import threading
import time
from concurrent.futures import ThreadPoolExecutor

from . import oracle
from .client import classify_line, line_bytes

PYTHON = os.environ.get("PYTRAPIC_PYTHON", "/venv/bin/python")
ALIVE_AFTER_S = 6.0


def _env(repo_src, hashseed=None, ioenc=None):
    env = dict(os.environ)
    env["PYTHONPATH"] = repo_src
    env["PYTHONDONTWRITEBYTECODE"] = "1"
    env.pop("PYTHONSTARTUP", None)
    if hashseed is None:
        env.pop("PYTHONHASHSEED", None)
    else:
        env["PYTHONHASHSEED"] = str(hashseed)
    if ioenc:
        env["PYTHONIOENCODING"] = ioenc
    else:
        env.pop("PYTHONIOENCODING", None)
    return env


def _version_shim(repo_src):
    """_version.py is git-ignored; when a restored tree lacks it a real interpreter cannot import the package.
    Never write into the repository: give the real processes a sitecustomize that registers an in-memory one."""
    if os.path.exists(os.path.join(repo_src, "stationeers_pytrapic", "_version.py")):
        return None
    d = tempfile.mkdtemp(prefix="pytrapic-shim-")
    with open(os.path.join(d, "sitecustomize.py"), "w") as f:
        f.write("import sys, types\nm = types.ModuleType('stationeers_pytrapic._version')\n"
                "m.__version__ = m.version = '0.0.0+verif'\nm.__version_tuple__ = m.version_tuple = (0, 0, 0, 'verif')\n"
                "m.__commit_id__ = m.commit_id = None\nsys.modules['stationeers_pytrapic._version'] = m\n")
    return d


class Conformance:
    def __init__(self, repo_src, workers=6):
        self.repo_src = repo_src
        self.workers = workers
        self.shim = _version_shim(repo_src)
        self.report = {"helper": {"compared": 0, "equal": 0, "inconclusive": 0, "mismatches": []},
                       "api": {"compared": 0, "equal": 0, "inconclusive": 0, "mismatches": []},
                       "daemon": {"compared": 0, "equal": 0, "inconclusive": 0, "mismatches": []}}
        self.lock = threading.Lock()

    def env(self, hashseed=None, ioenc=None):
        e = _env(self.repo_src, hashseed, ioenc)
        if self.shim:
            e["PYTHONPATH"] = self.repo_src + os.pathsep + self.shim
        return e

    def close(self):
        if self.shim:
            import shutil
            shutil.rmtree(self.shim, ignore_errors=True)

    def _note(self, part, verdict, detail=None):
        with self.lock:
            r = self.report[part]
            r["compared"] += 1
            if verdict == "equal":
                r["equal"] += 1
            elif verdict == "inconclusive":
                r["inconclusive"] += 1
            else:
                r["mismatches"].append(detail)

    # -- (a) helper scripts ---------------------------------------------------------------------
    def _helper_one(self, script, oc):
        def real(limit):
            p = subprocess.Popen([PYTHON, "-c", script], stdin=subprocess.DEVNULL, stdout=subprocess.PIPE,
                                 stderr=subprocess.PIPE, env=self.env(), start_new_session=True)
            try:
                out, err = p.communicate(timeout=limit)
                return {"alive": False, "rc": p.returncode, "out": out, "err": err}
            except subprocess.TimeoutExpired:
                try:
                    os.killpg(p.pid, 9)
                except OSError:
                    p.kill()
                try:
                    p.communicate(timeout=5)
                except subprocess.TimeoutExpired:
                    pass
                return {"alive": True}

        state = oc.get("state")
        out = bytes.fromhex(oc.get("out", "")) if isinstance(oc.get("out"), str) else oc.get("out", b"")
        err = bytes.fromhex(oc.get("err", "")) if isinstance(oc.get("err"), str) else oc.get("err", b"")
        r = real(ALIVE_AFTER_S)
        if r["alive"]:
            if state == "never-ends" or (state == "exit" and oc.get("slept", 0.0) >= 1.0):
                return "equal", None
            r = real(40.0)  # a loaded machine?  one long retry
            if r["alive"]:
                return "mismatch", {"script_digest": oracle.digest(script), "stub": state, "real": "still running after 40 s"}
        if state == "never-ends":
            return "mismatch", {"script_digest": oracle.digest(script), "stub": "never-ends", "real": "exit %r" % r["rc"],
                                "script_tail": script[-300:]}
        if state != "exit":
            return "inconclusive", None
        same = (r["rc"] == oc.get("rc") and r["out"] == out and bool(r["err"].strip()) == bool(err.strip()))
        if same:
            return "equal", None
        return "mismatch", {"script_digest": oracle.digest(script), "stub": {"rc": oc.get("rc"), "out": out[:200].decode("utf-8", "replace"), "err": err[-200:].decode("utf-8", "replace")},
                            "real": {"rc": r["rc"], "out": r["out"][:200].decode("utf-8", "replace"), "err": r["err"][-200:].decode("utf-8", "replace")},
                            "script_tail": script[-300:]}

    def helpers(self, items, limit=None):
        """items: [[script, mode, data-hex], outcome] as collected by zpool.SHARE"""
        todo = [(k[0], oc) for k, oc in items if k[1] == "eof"]
        if limit is not None:
            todo = todo[:: max(1, len(todo) // limit)][:limit]
        with ThreadPoolExecutor(self.workers) as ex:
            for verdict, detail in ex.map(lambda t: self._helper_one(*t), todo):
                self._note("helper", verdict, detail)

    # -- (b) api references in a truly fresh interpreter ------------------------------------------
    _API_DRIVER = r"""
import json, sys
req = json.load(sys.stdin)
from stationeers_pytrapic import compiler
from stationeers_pytrapic.compile_pass import CompileOptions
style, values = req["opt_style"], req["options"] or {}
options = None if style == "none" else (dict(values) if style == "dict" else CompileOptions(**values))
src = req["src"]
if req["src_style"] == "str":
    src = src[""]
sys.stdin = open("/dev/null")
res = compiler.compile_code(src, options)
sys.__stdout__.write("\n@@RESULT@@" + json.dumps(res))
"""

    def _api_one(self, req, ref, hashseed, constexpr):
        def real():
            p = subprocess.run([PYTHON, "-c", self._API_DRIVER], input=json.dumps(req).encode(), capture_output=True,
                               env=self.env(hashseed), timeout=300)
            out = p.stdout.decode("utf-8", "replace")
            i = out.rfind("@@RESULT@@")
            if p.returncode != 0 or i < 0:
                return {"__outcome__": "real-failed", "rc": p.returncode, "err": p.stderr.decode("utf-8", "replace")[-600:]}
            return oracle.normalise(json.loads(out[i + 10:]))

        got = None
        for attempt in range(3 if constexpr else 1):
            got = real()
            if got == ref:
                return "equal", None
            d = got.get("error", {}).get("description", "") if isinstance(got.get("error"), dict) else ""
            if not (constexpr and "Timeout during evaluating" in d):
                break
        else:
            return "inconclusive", None
        return "mismatch", {"request_digest": oracle.digest(req), "hash_seed": hashseed, "ref": _short(ref), "real": _short(got)}

    def api(self, pairs):
        """pairs: list of (request, reference result, hash seed for the real interpreter, uses constexpr?)"""
        with ThreadPoolExecutor(self.workers) as ex:
            for verdict, detail in ex.map(lambda t: self._api_one(*t), pairs):
                self._note("api", verdict, detail)

    # -- (c) daemon sessions on real pipes ---------------------------------------------------------
    def _daemon_one(self, spec, res):
        sess = spec["session"]
        data = bytearray()
        for ln in sess["lines"]:
            raw = line_bytes(ln)
            if ln.get("torn") is not None:
                data += raw[:ln["torn"]]
                break
            data += raw + ln.get("term", "\n").encode()
        else:
            if sess.get("end") in ("exit", "exit_then_more"):
                data += b"EXIT" + sess.get("exit_term", "\n").encode()
                if sess.get("end") == "exit_then_more":
                    for extra in sess.get("after_exit", []):
                        data += extra.encode("utf-8", "surrogateescape") + b"\n"
        ioenc = "utf-8:" + sess.get("stdin_errors", "surrogateescape")
        p = subprocess.Popen([PYTHON, "-m", "stationeers_pytrapic.mod_daemon"], stdin=subprocess.PIPE, stdout=subprocess.PIPE,
                             stderr=subprocess.PIPE, env=self.env(spec.get("hash_seed", 0), ioenc), start_new_session=True)
        try:
            out, err = p.communicate(bytes(data), timeout=600)
        except subprocess.TimeoutExpired:
            try:
                os.killpg(p.pid, 9)
            except OSError:
                p.kill()
            p.communicate()
            return "mismatch", {"label": spec.get("k"), "real": "daemon did not exit within 600 s"}
        parts = out.split(b"\n")
        lines, tail = parts[:-1], parts[-1]
        real = []
        for raw in lines:
            obj, why = oracle.parse_reply_line(raw)
            real.append(oracle.normalise(obj) if obj is not None else {"__bad__": why})
        sim = res.get("replies") or []
        problems = []
        if tail:
            problems.append("unterminated bytes at the end of real stdout: %r" % tail[:60])
        if p.returncode != 0:
            problems.append("real daemon exit status %r" % p.returncode)
        if len(real) != len(sim):
            problems.append("real daemon wrote %d reply lines, simulated daemon %d" % (len(real), len(sim)))
        else:
            for j, (a, b) in enumerate(zip(real, sim)):
                if a != b:
                    problems.append("reply %d differs: real %s / simulated %s" % (j, _short(a), _short(b)))
                    break
        if bool(err.strip()) != bool(res.get("stderr_bytes", 0)):
            problems.append("stderr: real %d bytes (%r), simulated %d bytes" % (len(err), err[-200:], res.get("stderr_bytes", 0)))
        if problems:
            return "mismatch", {"label": spec.get("k"), "problems": problems[:3]}
        return "equal", None

    def daemon(self, pairs):
        with ThreadPoolExecutor(self.workers) as ex:
            for verdict, detail in ex.map(lambda t: self._daemon_one(*t), pairs):
                self._note("daemon", verdict, detail)

    def mismatches(self):
        return [dict(m, part=part) for part, r in self.report.items() for m in r["mismatches"]]


def _short(r, n=200):
    if isinstance(r, dict):
        if "code" in r:
            return "code %r" % (r["code"][:n],)
        if "error" in r:
            e = r["error"]
            return "error %r" % (str(e.get("description") if isinstance(e, dict) else e)[:n],)
    return repr(r)[:n]


def daemon_session_eligible(spec, res):
    """sessions whose real replay is timing-independent: finished without violation, no injected helper fault, no
    constexpr helper at all (a real helper's start-up time against the real 1 s timeout is load-dependent), timing
    knob off (the real process cannot be given the knob)"""
    if res is None or res.get("harness_error") or res.get("violation") or res.get("end") != "ok":
        return False
    if spec.get("knobs", {}).get("do_timing"):
        return False
    if res.get("req_helpers") or res.get("faults", {}).keys() - {"short_write", "eof_mid_line", "clock_jump"}:
        return False
    return True
