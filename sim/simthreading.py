"""Threads under the simulator's control.

Everything that blocks in `threading` (Condition, Event, Semaphore, Barrier, Timer), `queue` and `concurrent.futures`
bottoms out in `lock.acquire(blocking, timeout)` on locks made by `threading._allocate_lock`, and every thread is
started through `threading._start_new_thread`.  Replacing those two names - plus the pure-Python RLock, the pure-Python
SimpleQueue and the thread-state lock that `Thread.join` waits on - puts all of them behind sim/sched.py without
re-implementing any of them: the standard library's own Condition/Event/Queue/Future/ThreadPoolExecutor code runs for
real on top of SimLock.

Locks created before `install()` (inside modules imported by the zygote: logging, importlib, io) stay real.  They are
held only for short critical sections that contain no hand-over point; pre-emption is restricted to repository code
for the same reason (sched.on_step)."""
import _thread
import queue
import threading

from .seams_base import SimHang

SCHED = None


class SimLock:
    """a non-reentrant lock whose contended acquire is a scheduling point in virtual time"""

    def __init__(self):
        self._locked = False

    def acquire(self, blocking=True, timeout=-1):
        if not self._locked:
            self._locked = True
            return True
        if not blocking:
            return False
        s = SCHED
        clock = s.w.clock
        deadline = None if (timeout is None or timeout < 0) else clock.now + float(timeout)
        while self._locked:
            remaining = None if deadline is None else deadline - clock.now
            if remaining is not None and remaining <= 0:
                return False
            if remaining is None and not s.multi:
                raise SimHang("a lock that no other thread can release is acquired without a timeout")
            s.block(on=self, timeout=remaining)
        self._locked = True
        return True

    __enter__ = acquire

    def __exit__(self, *a):
        self.release()

    def release(self):
        if not self._locked:
            raise RuntimeError("release unlocked lock")
        self._locked = False
        SCHED.notify(self)

    def locked(self):
        return self._locked

    def _at_fork_reinit(self):
        self._locked = False

    def __repr__(self):
        return "<SimLock %s>" % ("locked" if self._locked else "unlocked")


def install(sched):
    global SCHED
    SCHED = sched
    threading._allocate_lock = SimLock
    threading.Lock = SimLock
    threading._CRLock = None  # threading.RLock() then builds the pure-Python RLock on _allocate_lock
    queue.SimpleQueue = queue._PySimpleQueue

    meta = {}

    def start_new_thread(function, args=(), kwargs=None):
        name, daemon = meta.pop("next", ("thread", False))
        ident = sched.start_thread(function, tuple(args), kwargs, name=name)
        sched.threads[-1].daemon = daemon
        return ident

    threading._start_new_thread = start_new_thread
    _thread.start_new_thread = start_new_thread

    T = threading.Thread
    orig_start = T.start
    orig_bootstrap_inner = T._bootstrap_inner

    def start(self):
        meta["next"] = (self.name, bool(self.daemon))
        return orig_start(self)

    def _set_tstate_lock(self):
        self._tstate_lock = SimLock()
        self._tstate_lock.acquire()

    def _bootstrap_inner(self):
        try:
            orig_bootstrap_inner(self)
        finally:
            lock = self._tstate_lock
            if lock is not None and lock.locked():
                lock.release()  # what the interpreter does when the thread's state is destroyed

    # Thread objects are kept in sets (ThreadPoolExecutor._threads, threading._dangling): hashing them by address
    # would make iteration order - e.g. the order in which shutdown() joins workers - differ from process to process
    seq = [0]
    orig_init = T.__init__

    def __init__(self, *a, **k):
        orig_init(self, *a, **k)
        seq[0] += 1
        self._sim_seq = seq[0]

    T.__init__ = __init__
    T.__hash__ = lambda self: getattr(self, "_sim_seq", 0) * 7919
    T.start = start
    T._set_tstate_lock = _set_tstate_lock
    T._bootstrap_inner = _bootstrap_inner

    orig_hook = threading.excepthook

    def excepthook(args):
        # Thread._bootstrap_inner swallows whatever escapes run(); a simulator signal must not get lost there
        from .seams_base import SimSignal
        if args.exc_type is not None and issubclass(args.exc_type, SimSignal):
            if sched.abort is None:
                sched.abort = args.exc_value
            return
        orig_hook(args)

    threading.excepthook = excepthook
