"""Development aid: execute one run spec in this process tree without the zygote protocol, with faulthandler armed.
usage: PYTHONHASHSEED=0 python -m sim.debugrun SPEC.json [repo_src] [dump_after_s]"""
import faulthandler
import json
import os
import sys


def main():
    spec_path = sys.argv[1]
    repo_src = sys.argv[2] if len(sys.argv) > 2 else "/repo/src"
    after = float(sys.argv[3]) if len(sys.argv) > 3 else 30
    from . import zygote
    zygote.boot(repo_src)
    with open(spec_path) as f:
        doc = json.load(f)
    spec = doc.get("spec", doc)
    from . import execrun, helper
    pending = []

    def send(o):
        pending.append(o)

    def recv():
        h = pending.pop()["helper"]
        oc = helper.intrinsic_outcome(h["script"], h["mode"], bytes.fromhex(h["data"]), h.get("args") or [])
        for k in ("out", "err"):
            if k in oc:
                oc[k] = oc[k].hex()
        return oc

    err = os.dup(2)
    errf = os.fdopen(os.dup(err), "w")
    faulthandler.dump_traceback_later(after + 2, exit=True, file=errf)
    import signal

    def on_alarm(*a):
        w = execrun.LAST_WORLD
        print("EVENTS", json.dumps(w.events[-80:]), file=errf)
        if w.sched:
            print("THREADS", [(t.tid, t.status, t.wake, repr(t.on)[:60], t.stdin) for t in w.sched.threads], "cur", w.sched.cur.tid, file=errf)
        errf.flush()

    signal.signal(signal.SIGALRM, on_alarm)
    signal.setitimer(signal.ITIMER_REAL, after)
    res = execrun.execute(spec, send, recv)
    faulthandler.cancel_dump_traceback_later()
    os.dup2(err, 2)
    res["events"] = res["events"][-60:]
    sys.__stderr__ = sys.stderr = os.fdopen(err, "w")
    print(json.dumps(res, indent=1, default=repr)[:6000], file=sys.stderr)


if __name__ == "__main__":
    main()
