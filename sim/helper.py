"""Intrinsic outcome of a constexpr evaluation script: the REAL generated script, really executed,
in a fork of the pristine zygote (package imported, nothing ever compiled).

Returns one of three absorbing states:
  exit            (rc, stdout bytes, stderr bytes, virtual seconds slept)
  never-ends      the step budget was exhausted (how `while True: pass` is recognised without waiting)
  blocked-on-stdin  the process sleeps in read(0) on an empty pipe that stays open

Only process creation and time are simulated; what the script computes is real.
"""
import os
import select
import signal
import sys
import time

STEP_BUDGET = 3_000_000  # monitoring events; a real evaluation uses a few hundred
CPU_GUARD_S = 8  # for loops inside C code (no bytecode events); classified never-ends
WALL_GUARD_S = 60  # the harness itself is stuck: reported as harness error
NEVER_RC = 251
# captured at import (in the pristine zygote): a run fork replaces these names with simulated ones
_fork, _waitpid, _kill = os.fork, os.waitpid, os.kill


def _child(script, stdin_mode, stdin_fd, out_w, err_w, args=()):
    try:
        os.dup2(stdin_fd, 0)
        os.dup2(out_w, 1)
        os.dup2(err_w, 2)
        for fd in (stdin_fd, out_w, err_w):
            if fd > 2:
                os.close(fd)
        sys.stdin = open(0, "r", closefd=False)
        sys.stdout = open(1, "w", closefd=False)
        sys.stderr = open(2, "w", closefd=False)
        sys.__stdin__, sys.__stdout__, sys.__stderr__ = sys.stdin, sys.stdout, sys.stderr
        sys.argv = ["-c"] + list(args)
        slept = [0.0]

        def fake_sleep(d):
            slept[0] += float(d)

        time.sleep = fake_sleep

        def report_slept():
            try:
                os.write(2, b"\x00SLEPT %r\x00" % slept[0])
            except OSError:
                pass

        state = {"n": 0}

        def on(code, offset, *rest):
            state["n"] += 1
            if state["n"] > STEP_BUDGET:
                os._exit(NEVER_RC)

        def on_cpu(signum, frame):
            os._exit(NEVER_RC)

        signal.signal(signal.SIGVTALRM, on_cpu)
        signal.setitimer(signal.ITIMER_VIRTUAL, CPU_GUARD_S)
        signal.signal(signal.SIGXCPU, on_cpu)
        mon = sys.monitoring
        mon.use_tool_id(mon.DEBUGGER_ID, "helper-steps")
        mon.register_callback(mon.DEBUGGER_ID, mon.events.PY_START, on)
        mon.register_callback(mon.DEBUGGER_ID, mon.events.JUMP, on)
        rc = 0
        g = {"__name__": "__main__", "__builtins__": __builtins__}
        try:
            code = compile(script, "<string>", "exec")
            mon.set_events(mon.DEBUGGER_ID, mon.events.PY_START | mon.events.JUMP)
            exec(code, g, g)
        except SystemExit as e:
            mon.set_events(mon.DEBUGGER_ID, 0)
            c = e.code
            if c is None:
                rc = 0
            elif isinstance(c, int):
                rc = c & 0xFF
            else:
                try:
                    sys.stderr.write(str(c) + "\n")
                except Exception:
                    pass
                rc = 1
        except BaseException as e:
            mon.set_events(mon.DEBUGGER_ID, 0)
            import traceback
            # as `python -c` prints it: without the frame of this stub
            traceback.print_exception(type(e), e, e.__traceback__.tb_next if e.__traceback__ else None)
            rc = 1
        mon.set_events(mon.DEBUGGER_ID, 0)
        try:
            sys.stdout.flush()
        except Exception:
            rc = rc or 120
        try:
            sys.stderr.flush()
        except Exception:
            pass
        report_slept()
        os._exit(rc)
    except BaseException:
        os._exit(252)


def _blocked_in_read0(pid):
    try:
        with open("/proc/%d/syscall" % pid) as f:
            parts = f.read().split()
    except OSError:
        return False
    # x86-64: read is syscall 0; first argument is the descriptor
    return len(parts) >= 2 and parts[0] == "0" and parts[1] in ("0x0", "0")


def intrinsic_outcome(script, stdin_mode, stdin_data=b"", args=()):
    """run in the (pristine) zygote.  stdin_mode: 'inherit' (an open pipe nobody writes to),
    'eof' (/dev/null), 'data' (a pipe holding stdin_data, then closed)"""
    out_r, out_w = os.pipe()
    err_r, err_w = os.pipe()
    keep_open = None
    if stdin_mode == "eof":
        stdin_fd = os.open(os.devnull, os.O_RDONLY)
    else:
        stdin_fd, w = os.pipe()
        if stdin_mode == "data":
            os.write(w, stdin_data[:60000])
            os.close(w)
        else:
            keep_open = w
    pid = _fork()
    if pid == 0:
        os.close(out_r)
        os.close(err_r)
        if keep_open is not None:
            os.close(keep_open)
        _child(script, stdin_mode, stdin_fd, out_w, err_w, args)
        os._exit(253)
    os.close(out_w)
    os.close(err_w)
    os.close(stdin_fd)
    bufs = {out_r: bytearray(), err_r: bytearray()}
    open_fds = {out_r, err_r}
    t0 = time.monotonic()
    state = None
    while True:
        if open_fds:
            r, _, _ = select.select(list(open_fds), [], [], 0.02)
            for fd in r:
                try:
                    d = os.read(fd, 65536)
                except OSError:
                    d = b""
                if d:
                    bufs[fd] += d
                else:
                    open_fds.discard(fd)
        wp, status = _waitpid(pid, os.WNOHANG)
        if wp == pid:
            # drain
            for fd in list(open_fds):
                while True:
                    try:
                        d = os.read(fd, 65536)
                    except OSError:
                        d = b""
                    if not d:
                        break
                    bufs[fd] += d
            break
        if not open_fds:
            time.sleep(0.005)
        if keep_open is not None and _blocked_in_read0(pid):
            # absorbing: nobody ever writes to that pipe.  Confirm twice to avoid reading /proc mid-transition.
            time.sleep(0.01)
            if _blocked_in_read0(pid):
                state = "blocked-on-stdin"
                _kill(pid, signal.SIGKILL)
                _waitpid(pid, 0)
                status = None
                break
        if time.monotonic() - t0 > WALL_GUARD_S:
            _kill(pid, signal.SIGKILL)
            _waitpid(pid, 0)
            for fd in (out_r, err_r):
                os.close(fd)
            if keep_open is not None:
                os.close(keep_open)
            return {"state": "harness-error", "msg": "helper wall guard"}
    for fd in (out_r, err_r):
        os.close(fd)
    if keep_open is not None:
        os.close(keep_open)
    out, err = bytes(bufs[out_r]), bytes(bufs[err_r])
    slept = 0.0
    i = err.rfind(b"\x00SLEPT ")
    if i >= 0:
        j = err.find(b"\x00", i + 1)
        try:
            slept = float(err[i + 7:j])
        except ValueError:
            slept = 0.0
        err = err[:i] + err[j + 1:]
    if state == "blocked-on-stdin":
        return {"state": state, "out": out, "err": err}
    if os.WIFSIGNALED(status):
        return {"state": "exit", "rc": -os.WTERMSIG(status), "out": out, "err": err, "slept": slept}
    rc = os.WEXITSTATUS(status)
    if rc == NEVER_RC:
        return {"state": "never-ends", "out": out, "err": err}
    if rc in (252, 253):
        return {"state": "harness-error", "msg": "helper fork failed rc=%d err=%r" % (rc, err[-300:])}
    return {"state": "exit", "rc": rc, "out": out, "err": err, "slept": slept}
