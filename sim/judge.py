"""Judges: turn (spec, run record, references) into at most one violation per run - the first in
history order.  A judge first says which references it needs (`needs`), then decides (`judge`)."""
from . import farm, oracle
from .client import classify_line, line_bytes

C10_LOCAL = ("raised", "hang", "leaked-helper", "late", "shape")


def _v(prop, cls, msg, spec, **kw):
    d = {"property": prop, "class": cls, "message": msg}
    d.update(kw)
    return d


def _fault_fired(rec):
    return [f for f in rec.get("faults", []) if f != "ok"]


# ------------------------------------------------------------------------------------------------
def c10_needs(spec, res):
    out = {}
    if res is None or res.get("harness_error"):
        return out
    for rec in res.get("ops", []):
        if "result" not in rec:
            continue
        op = spec["ops"][rec["i"]]
        need = False
        if op.get("recheck"):
            need = True
        elif _fault_fired(rec) and not oracle.is_error_result(rec["result"]) and "__outcome__" not in rec["result"]:
            need = True
        if need:
            req = farm.api_ref_request(op, spec.get("shared_options"))
            out[farm.api_ref_key(req)] = farm.api_ref_spec(req)
    return out


def c10_judge(spec, res, refs):
    for rec in res.get("ops", []):
        if "result" not in rec:
            continue
        i = rec["i"]
        op = spec["ops"][i]
        for c in rec.get("checks", []):
            if c["class"] in C10_LOCAL:
                return _v("C10", c["class"], c["message"], spec, op=i, entry=op.get("entry"))
        fired = _fault_fired(rec)
        result = rec["result"]
        if op.get("recheck") or (fired and not oracle.is_error_result(result)):
            req = farm.api_ref_request(op, spec.get("shared_options"))
            ref = refs.get(farm.api_ref_key(req), farm.api_ref_spec(req))
            if "__ref_error__" in ref:
                return _v("C10", "harness", "no reference: %s" % ref["__ref_error__"], spec, op=i, harness=True)
            if result != ref["result"]:
                if op.get("recheck"):
                    return _v("C10", "not-recovered",
                              "after a failed constexpr evaluation the same request, re-issued with no fault, does not give "
                              "the fault-free result: got %s, fresh process gives %s" % (_short(result), _short(ref["result"])),
                              spec, op=i, entry=op.get("entry"))
                return _v("C10", "wrong-after-fault",
                          "helper fault %s produced a program that differs from the fault-free one instead of an error: "
                          "got %s, fault-free %s" % (fired, _short(result), _short(ref["result"])),
                          spec, op=i, entry=op.get("entry"))
    return None


def _short(r, n=160):
    if isinstance(r, dict):
        if "code" in r:
            return "code %r" % (r["code"][:n],)
        if "error" in r:
            e = r["error"]
            d = e.get("description") if isinstance(e, dict) else e
            return "error %r" % (str(d)[:n],)
    return repr(r)[:n]


# ------------------------------------------------------------------------------------------------
def c11_needs(spec, res):
    out = {}
    if res is None or res.get("harness_error"):
        return out
    for rec in res.get("ops", []):
        if "result" not in rec:
            continue
        op = spec["ops"][rec["i"]]
        if _fault_fired(rec) and (oracle.is_error_result(rec["result"])):
            continue
        req = farm.api_ref_request(op, spec.get("shared_options"))
        out[farm.api_ref_key(req)] = farm.api_ref_spec(req)
    return out


def c11_judge(spec, res, refs):
    seen = {}
    for rec in res.get("ops", []):
        if "result" not in rec:
            continue
        i = rec["i"]
        op = spec["ops"][i]
        for c in rec.get("checks", []):
            if c["class"] == "input-mutated":
                return _v("C11", "input-mutated", c["message"], spec, op=i, entry=op.get("entry"))
        result = rec["result"]
        if isinstance(result, dict) and result.get("__outcome__") == "hang":
            return None  # C10's business; nothing after it is comparable
        fired = _fault_fired(rec)
        req = farm.api_ref_request(op, spec.get("shared_options"))
        key = farm.api_ref_key(req)
        if not fired:
            if key in seen and seen[key][1] != rec["rdigest"]:
                return _v("C11", "unstable-repeat",
                          "the same request gave two different results in one process: request #%d gave %s, request #%d gives %s"
                          % (seen[key][0], _short(seen[key][2]), i, _short(result)), spec, op=i, entry=op.get("entry"))
            seen.setdefault(key, (i, rec["rdigest"], result))
        if fired and oracle.is_error_result(result):
            continue
        ref = refs.get(key, farm.api_ref_spec(req))
        if "__ref_error__" in ref:
            return _v("C11", "harness", "no reference: %s" % ref["__ref_error__"], spec, op=i, harness=True)
        if result != ref["result"]:
            what = "history-dependent"
            return _v("C11", what,
                      "request #%d (%s) gives %s here, but %s when it is the first thing a fresh process (hash seed 0) compiles"
                      % (i, op.get("entry"), _short(result), _short(ref["result"])), spec, op=i, entry=op.get("entry"))
    return None


# ------------------------------------------------------------------------------------------------
def _sess_lines(spec):
    sess = spec["session"]
    errors = sess.get("stdin_errors", "surrogateescape")
    out = []
    for idx, ln in enumerate(sess["lines"]):
        raw = line_bytes(ln)
        if ln.get("torn") is not None:
            out.append((idx, ln, "torn"))
        else:
            out.append((idx, ln, classify_line(raw, errors)))
    return out, errors


def c14_needs(spec, res):
    out = {}
    if res is None or res.get("harness_error") or res.get("violation") or res.get("end") != "ok":
        return out
    lines, errors = _sess_lines(spec)
    for idx, ln, k in lines:
        if k == "request" and ln.get("kind") == "request":
            out[farm.daemon_ref_key(ln["raw"], errors)] = farm.daemon_ref_spec(ln["raw"], errors)
    return out


def c14_judge(spec, res, refs):
    v = res.get("violation")
    if v:
        return _v("C14", v["class"], v["message"], spec)
    if res.get("end") != "ok":
        return _v("C14", "harness", "daemon run ended %r without a recorded violation" % res.get("end"), spec, harness=True)
    lines, errors = _sess_lines(spec)
    replies = res.get("replies") or []
    faults = res.get("req_faults", {})
    expected = []  # (idx, kind, ln, ref_reply or None)
    all_refs = []
    for idx, ln, k in lines:
        ref_reply = None
        if k == "request" and ln.get("kind") == "request":
            ref = refs.get(farm.daemon_ref_key(ln["raw"], errors), farm.daemon_ref_spec(ln["raw"], errors))
            if ref.get("__ref_error__") or ref.get("violation") or not ref.get("replies") or len(ref["replies"]) != 1:
                return _v("C14", "harness", "no usable reference for line %d (%s): %r" % (idx, ln.get("entry"), ref), spec, harness=True)
            ref_reply = ref["replies"][0]
            all_refs.append((idx, ref_reply))
        expected.append((idx, k, ln, ref_reply))

    def fits(e, reply):
        idx, k, ln, ref_reply = e
        if reply is None:
            return False
        if k in ("blank", "torn", "exit-padded"):
            return True if k == "torn" else ("error" in reply and "code" not in reply)
        if ln.get("kind") == "request":
            if faults.get(str(idx)):
                return reply == ref_reply or ("error" in reply and "code" not in reply)
            return reply == ref_reply
        # non-requests (malformed / odd lines): the statement allows "a compile result or an error object";
        # a lenient daemon may compile e.g. a request with duplicate keys or extra fields.  Which of the
        # two it is, is not ours to demand (frame validity is bad-frame's business).
        return isinstance(reply, dict) and (("error" in reply) != ("code" in reply))

    memo = {}

    def match(i, j):
        key = (i, j)
        if key in memo:
            return memo[key]
        if i == len(expected):
            r = j == len(replies)
        else:
            e = expected[i]
            k = e[1]
            if k == "empty":
                r = match(i + 1, j)
            elif k in ("blank", "torn", "exit-padded"):
                r = match(i + 1, j) or (j < len(replies) and fits(e, replies[j]) and match(i + 1, j + 1))
            else:
                r = j < len(replies) and fits(e, replies[j]) and match(i + 1, j + 1)
        memo[key] = r
        return r

    if match(0, 0):
        return None
    # diagnose with a greedy pass
    lo = sum(1 for e in expected if e[1] == "request")
    hi = lo + sum(1 for e in expected if e[1] in ("blank", "torn", "exit-padded"))
    if not (lo <= len(replies) <= hi):
        return _v("C14", "count", "%d reply lines for %d non-empty request lines (at most %d with whitespace-only / torn lines)"
                  % (len(replies), lo, hi), spec)
    j = 0
    for e in expected:
        idx, k, ln, ref_reply = e
        if k == "empty":
            continue
        if k in ("blank", "torn", "exit-padded"):
            if j < len(replies) and fits(e, replies[j]) and not any(replies[j] == rr for _, rr in all_refs):
                j += 1
            continue
        reply = replies[j] if j < len(replies) else None
        if not fits(e, reply):
            other = [ix for ix, rr in all_refs if rr == reply and ix != idx]
            if other:
                return _v("C14", "order", "reply #%d is the answer to request line %d, not to line %d (%s)"
                          % (j, other[0], idx, ln.get("entry")), spec, line=idx, entry=ln.get("entry"))
            if ln.get("kind") == "request":
                return _v("C14", "disturbed", "reply #%d to line %d (%s) is %s; the same request sent alone to a fresh daemon gets %s"
                          % (j, idx, ln.get("entry"), _short(reply), _short(ref_reply)), spec, line=idx, entry=ln.get("entry"))
            return _v("C14", "disturbed", "reply #%d to the malformed line %d (%s) is neither a compile result nor an error object: %s"
                      % (j, idx, ln.get("entry"), _short(reply)), spec, line=idx, entry=ln.get("entry"))
        j += 1
    return _v("C14", "count", "replies cannot be aligned with the request lines", spec)


NEEDS = {"C10": c10_needs, "C11": c11_needs, "C14": c14_needs}
JUDGE = {"C10": c10_judge, "C11": c11_judge, "C14": c14_judge}
