"""Orchestrator-side handles on zygote interpreters."""
import os
import subprocess
import sys
import threading

from . import zygote as zproto

VERIF_DIR = os.path.dirname(os.path.dirname(os.path.abspath(__file__)))
REPO_SRC = os.environ.get("PYTRAPIC_REPO_SRC", "/repo/src")
PYTHON = os.environ.get("PYTRAPIC_PYTHON", "/venv/bin/python")


class HelperShare:
    """append-only list of helper outcomes computed by any zygote, shipped to the others"""

    def __init__(self):
        self.items = []
        self.keys = set()
        self.lock = threading.Lock()

    def add(self, new):
        with self.lock:
            for key, oc in new:
                k = tuple(key)
                if k not in self.keys:
                    self.keys.add(k)
                    self.items.append([key, oc])


SHARE = HelperShare()


class Zygote:
    def __init__(self, hashseed, repo_src=None):
        self.hashseed = int(hashseed)
        self.repo_src = repo_src or REPO_SRC
        env = dict(os.environ)
        env["PYTHONHASHSEED"] = str(self.hashseed)
        env["PYTHONPATH"] = VERIF_DIR
        env["PYTHONDONTWRITEBYTECODE"] = "1"
        env.pop("PYTHONSTARTUP", None)
        self.errlog = None
        self.proc = subprocess.Popen([PYTHON, "-X", "faulthandler", "-m", "sim.zygote", self.repo_src],
                                     stdin=subprocess.PIPE, stdout=subprocess.PIPE, stderr=None,
                                     env=env, cwd=VERIF_DIR, close_fds=True)
        self.wfd = self.proc.stdin.fileno()
        self.rfd = self.proc.stdout.fileno()
        self.lock = threading.Lock()
        self.info = None
        self.runs = 0
        self.sent_upto = 0

    def wait_ready(self):
        msg = zproto.recv(self.rfd)
        if not msg or "ready" not in msg:
            raise RuntimeError("zygote(hashseed=%d) failed to boot: %r" % (self.hashseed, msg))
        self.info = msg["ready"]
        return self.info

    def run(self, spec):
        with self.lock:
            self.runs += 1
            upto = len(SHARE.items)
            zproto.send(self.wfd, {"op": "run", "spec": spec, "helpers": SHARE.items[self.sent_upto:upto]})
            self.sent_upto = upto
            msg = zproto.recv(self.rfd)
        if msg is None:
            return {"harness_error": "zygote(hashseed=%d) died" % self.hashseed}
        if msg.get("new_helpers"):
            SHARE.add(msg["new_helpers"])
        return msg.get("result", {"harness_error": "bad zygote reply %r" % (msg,)})

    def helper(self, script, mode="eof", data=b""):
        with self.lock:
            zproto.send(self.wfd, {"op": "helper", "script": script, "mode": mode, "data": data.hex()})
            msg = zproto.recv(self.rfd)
        oc = msg["outcome"]
        for k in ("out", "err"):
            if k in oc:
                oc[k] = bytes.fromhex(oc[k])
        return oc

    def close(self):
        try:
            zproto.send(self.wfd, {"op": "quit"})
        except OSError:
            pass
        try:
            self.proc.stdin.close()
        except OSError:
            pass
        try:
            self.proc.wait(timeout=10)
        except subprocess.TimeoutExpired:
            self.proc.kill()
            self.proc.wait()
        try:
            self.proc.stdout.close()
        except OSError:
            pass
