"""./check selftest - determinism of the simulator: the same run specs executed in two different zygote
instances (different processes, different address-space layout, same controlled PYTHONHASHSEED) must give
identical run digests (event log + results).  A difference is a harness error (exit 2), never a violation.

Sensitivity (does a broken tree get caught?) is exercised by pointing a check at another tree:
    PYTRAPIC_REPO=/path/to/mutated/copy ./check C11
(the pinned, unrepaired commit is such a tree: see DESIGN.md section 9 for what each check reports on it)."""
import time

from . import farm as farm_mod
from . import gen
from .main import REPO, REPO_SRC, hash_seed_list, log


def main(seed, tier):
    n = 30 if tier == "quick" else 200
    t0 = time.monotonic()
    corp = gen.Corpus(REPO)
    hs = hash_seed_list(seed, 2)
    one = farm_mod.OneShot(repo_src=REPO_SRC)
    bad = 0
    total = 0
    for prop, fn in (("C10", gen.c10_random_spec), ("C11", gen.c11_spec), ("C14", gen.c14_spec)):
        specs = [fn(seed, k, corp, hs) for k in range(n)]
        for h in hs:
            za, zb = one.fresh(h), one.fresh(h)
            try:
                for s in specs:
                    if s.get("hash_seed", 0) != h:
                        continue
                    a, b = za.run(s), zb.run(s)
                    total += 1
                    if a.get("harness_error") or b.get("harness_error"):
                        bad += 1
                        log("HARNESS-ERROR %s k=%s: %s" % (prop, s.get("k"), a.get("harness_error") or b.get("harness_error")))
                    elif a.get("digest") != b.get("digest"):
                        bad += 1
                        log("HARNESS-ERROR determinism %s k=%s: %s != %s" % (prop, s.get("k"), a.get("digest"), b.get("digest")))
            finally:
                za.close()
                zb.close()
    log("selftest: %d specs executed twice in different zygotes, %d mismatches, %.0f s" % (total, bad, time.monotonic() - t0))
    return 2 if bad or not total else 0
