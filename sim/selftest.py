"""./check selftest - determinism of the simulator: the same run specs executed in two different zygote
instances (different processes, different address-space layout, same controlled PYTHONHASHSEED) must give
identical run digests (event log + results).  A difference is a harness error (exit 2), never a violation.

Sensitivity (does a broken tree get caught?) is exercised by pointing a check at another tree:
    PYTRAPIC_REPO=/path/to/mutated/copy ./check C11
(the pinned, unrepaired commit is such a tree: see DESIGN.md section 9 for what each check reports on it)."""
import time

from . import farm as farm_mod
from . import gen
from .main import REPO, REPO_SRC, hash_seed_list, log


def main(seed, tier):
    n = 30 if tier == "quick" else 200
    t0 = time.monotonic()
    corp = gen.Corpus(REPO)
    hs = hash_seed_list(seed, 2)
    one = farm_mod.OneShot(repo_src=REPO_SRC)
    bad = 0
    total = 0
    for prop, fn in (("C10", gen.c10_random_spec), ("C11", gen.c11_spec), ("C14", gen.c14_spec)):
        specs = [fn(seed, k, corp, hs) for k in range(n)]
        for h in hs:
            za, zb = one.fresh(h), one.fresh(h)
            try:
                for s in specs:
                    if s.get("hash_seed", 0) != h:
                        continue
                    a, b = za.run(s), zb.run(s)
                    total += 1
                    if a.get("harness_error") or b.get("harness_error"):
                        bad += 1
                        log("HARNESS-ERROR %s k=%s: %s" % (prop, s.get("k"), a.get("harness_error") or b.get("harness_error")))
                    elif a.get("digest") != b.get("digest"):
                        bad += 1
                        log("HARNESS-ERROR determinism %s k=%s: %s != %s" % (prop, s.get("k"), a.get("digest"), b.get("digest")))
            finally:
                za.close()
                zb.close()
    log("selftest: %d specs executed twice in different zygotes, %d mismatches, %.0f s" % (total, bad, time.monotonic() - t0))
    tb, tt = threaded(seed, n, corp, one)
    one.close()
    gb = generation(seed)
    return 2 if bad or tb or gb or not total else 0


def generation(seed, n=60):
    """spec generation is a pure function of (VERIF_SEED, property, run index, corpus): generated again in fresh
    interpreters under other hash seeds, the specs must be byte-identical"""
    import hashlib
    import json
    import os
    import subprocess
    import sys
    code = ("import sys, json, hashlib; sys.path.insert(0, %r)\n"
            "from sim import gen\nfrom sim.main import hash_seed_list\n"
            "corp = gen.Corpus(%r); hs = hash_seed_list(%d, 4); h = hashlib.sha256()\n"
            "for fn in (gen.c10_random_spec, gen.c11_spec, gen.c14_spec):\n"
            "    for k in range(%d):\n        h.update(json.dumps(fn(%d, k, corp, hs), sort_keys=True).encode())\n"
            "for k in range(4):\n    h.update(json.dumps(gen.c11_spec(%d, k, corp, hs, soak=True), sort_keys=True).encode())\n"
            "h.update(json.dumps(gen.c10_sweep_specs(corp, {}), sort_keys=True).encode())\nprint(h.hexdigest())\n"
            % (os.path.dirname(os.path.dirname(os.path.abspath(__file__))), REPO, seed, n, seed, seed))
    digests = {}
    for hs in ("0", "1", "4242", "random"):
        env = dict(os.environ, PYTHONHASHSEED=hs)
        r = subprocess.run([sys.executable, "-c", code], env=env, capture_output=True, text=True)
        digests[hs] = r.stdout.strip() or ("error: " + r.stderr[-300:])
    ok = len(set(digests.values())) == 1 and not any(v.startswith("error") for v in digests.values())
    log("selftest(generation): %d specs per property generated under PYTHONHASHSEED 0, 1, 4242, random: %s"
        % (n, "identical" if ok else "DIFFER %r" % digests))
    if not ok:
        log("HARNESS-ERROR spec generation depends on the interpreter's hash seed")
    return 0 if ok else 1


THREADED_SUTS = [("seeded/c14b-request-watchdog", "C14"), ("seeded/c14a-compile-watchdog", "C14"), ("seeded/c10a-drip-timeout", "C10")]


def threaded(seed, n, corp, one):
    """The unchanged daemon is one sequential thread, so the scheduler's thread hand-over is never exercised by it.
    Its determinism is proved on trees that do use threads / an asyncio executor: seeded changes applied to a scratch
    copy (removed afterwards); every spec carries scheduling decisions and a pre-emption period; two different zygote
    instances must produce identical digests."""
    import os
    import shutil
    from . import sensitivity
    from .prng import Rng
    from .zpool import Zygote
    bad = total = multi = 0
    t0 = time.monotonic()
    for name, prop in THREADED_SUTS:
        m = [x for x in sensitivity.mutants() if x["name"] == name]
        if not m:
            log("selftest(threads): %s not present, skipped" % name)
            continue
        d = sensitivity.scratch_copy()
        try:
            why = sensitivity.apply(m[0], d)
            if why:
                log("selftest(threads): %s does not apply (%s), skipped" % (name, why))
                continue
            src = os.path.join(d, "src")
            specs = []
            for k in range(n):
                if prop == "C14":
                    s = gen.c14_spec(seed, k, corp, [0])
                else:
                    s = gen.c10_random_spec(seed, k, corp, [0])
                r = Rng(seed, "selftest-sched", k)
                s["knobs"]["sched"] = [r.below(6) for _ in range(40)]
                s["knobs"]["preempt_every"] = r.choice([300, 3000])
                specs.append(s)
            if prop == "C10":
                specs += gen.c10_sweep_specs(corp, {})[-12:]  # the drip / orphan fault points
            za, zb = Zygote(0, src), Zygote(0, src)
            za.wait_ready()
            zb.wait_ready()
            try:
                for s in specs:
                    a, b = za.run(s), zb.run(s)
                    total += 1
                    if (a.get("probes") or {}).get("threads-in-use"):
                        multi += 1
                    if a.get("harness_error") or b.get("harness_error"):
                        bad += 1
                        log("HARNESS-ERROR %s on %s k=%s: %s" % (prop, name, s.get("k"), a.get("harness_error") or b.get("harness_error")))
                    elif a.get("digest") != b.get("digest"):
                        bad += 1
                        log("HARNESS-ERROR determinism(threads) %s k=%s: %s != %s" % (name, s.get("k"), a.get("digest"), b.get("digest")))
            finally:
                za.close()
                zb.close()
        finally:
            shutil.rmtree(d, ignore_errors=True)
    log("selftest(threads): %d specs executed twice on threaded trees (%d of them ran more than one thread), %d mismatches, %.0f s"
        % (total, multi, bad, time.monotonic() - t0))
    return bad, total
