"""Oracles that need no reference: result shape, statistics recount, error position, normalisation."""
import hashlib
import json
import re

_ADDR = re.compile(r"0x[0-9a-fA-F]{6,}")
_NL = re.compile(r"\r\n|\r|\n")


def digest(obj):
    return hashlib.sha256(json.dumps(obj, sort_keys=True, ensure_ascii=True, default=repr).encode()).hexdigest()[:16]


def normalise(res):
    """the narrow, stated normalisation of DESIGN §2.8: drop error.stack_trace (it names harness
    frames), replace object addresses in error.description.  Nothing else."""
    if not isinstance(res, dict):
        return res
    out = dict(res)
    err = out.get("error")
    if isinstance(err, dict):
        err = dict(err)
        if "stack_trace" in err:
            err["stack_trace"] = "<dropped>"
        if isinstance(err.get("description"), str):
            err["description"] = _ADDR.sub("0xADDR", err["description"])
        out["error"] = err
    return out


def is_error_result(res):
    return isinstance(res, dict) and "error" in res and "code" not in res


def _texts(src):
    if isinstance(src, str):
        return [src]
    return [v for v in src.values() if isinstance(v, str)]


def _position_ok(line, column, texts):
    """inside *some* submitted text.  Python reports 1-based lines; offsets may be 1-based and
    may point one past the end of a line or of the text: both count as inside."""
    if isinstance(line, bool) or not isinstance(line, int):
        return False, "line is %r" % (line,)
    why = "no submitted text has a line %r" % (line,)
    for t in texts:
        lines = _NL.split(t)
        if 1 <= line <= len(lines) + 1:
            if column is None:
                return True, ""
            if isinstance(column, bool) or not isinstance(column, int):
                return False, "column is %r" % (column,)
            # ast offsets count UTF-8 bytes, SyntaxError offsets count characters: accept either
            length = len(lines[line - 1].encode("utf-8", "surrogatepass")) if line <= len(lines) else 0
            if 0 <= column <= length + 1:
                return True, ""
            why = "column %r outside line %r of length %d" % (column, line, length)
    return False, why


def shape_violation(res, src):
    """None if `res` is what C10 says compile_code returns, else a short reason (violation class `shape`)."""
    if not isinstance(res, dict):
        return "result is %s, not a dict" % type(res).__name__
    try:
        json.dumps(res)
    except (TypeError, ValueError) as e:
        return "result is not JSON-serialisable: %s" % e
    has_code, has_err = "code" in res, "error" in res
    if has_code == has_err:
        return "result has %s of 'code'/'error' (keys %s)" % ("both" if has_code else "neither", sorted(res))
    if has_code:
        code = res["code"]
        if not isinstance(code, str):
            return "'code' is %s" % type(code).__name__
        nl = len(code.splitlines())
        if res.get("num_lines") != nl:
            return "num_lines=%r but the code has %d lines" % (res.get("num_lines"), nl)
        # bytes as the game counts them: characters plus one per line break (CRLF), i.e. len + '\n' count
        nb = len(code) + max(nl - 1, 0)
        if res.get("num_bytes") != nb:
            return "num_bytes=%r but the code has %d bytes (chars + line breaks)" % (res.get("num_bytes"), nb)
        nr = res.get("num_registers")
        if isinstance(nr, bool) or not isinstance(nr, int) or not (0 <= nr <= 16):
            return "num_registers=%r" % (nr,)
        return None
    err = res["error"]
    if not isinstance(err, dict):
        return "'error' is %s" % type(err).__name__
    d = err.get("description")
    if not isinstance(d, str) or not d.strip():
        return "error.description is %r" % (d,)
    if err.get("line") is not None:
        ok, why = _position_ok(err.get("line"), err.get("column"), _texts(src))
        if not ok:
            return "error position outside the submitted text: " + why
        if err.get("line_end") is not None:
            ok, why = _position_ok(err.get("line_end"), err.get("column_end"), _texts(src))
            if not ok:
                return "error end position outside the submitted text: " + why
    return None


# --- daemon reply frames -----------------------------------------------------------------------
import base64
import binascii


def parse_reply_line(line_bytes):
    """line without terminator -> (obj, None) or (None, reason)"""
    try:
        s = line_bytes.decode("ascii")
    except UnicodeDecodeError:
        return None, "reply line is not ASCII"
    if s.endswith("\r"):
        s = s[:-1]
    if not s:
        return None, "empty reply line"
    try:
        raw = base64.b64decode(s, validate=True)
    except (binascii.Error, ValueError) as e:
        return None, "reply line is not base64: %s" % e
    try:
        text = raw.decode("utf-8")
    except UnicodeDecodeError:
        return None, "reply payload is not UTF-8"
    try:
        obj = json.loads(text)
    except ValueError:
        return None, "reply payload is not JSON"
    if not isinstance(obj, dict):
        return None, "reply payload is a JSON %s, not an object" % type(obj).__name__
    if "code" not in obj and "error" not in obj:
        return None, "reply object has neither 'code' nor 'error' (keys %s)" % sorted(obj)
    return obj, None
