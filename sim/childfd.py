"""Descriptor-level access to a simulated helper's pipes.

Round 3 left three ways of supervising the helper outside the simulated process boundary (HARNESS-ERROR `unmodelled
seam`, no verdict): `selectors`/`select.poll` on `process.stdout.fileno()`, `os.posix_spawn` with `os.pipe()` pairs, and
`asyncio` subprocess transports (the latter is in aioloop.py).  This module gives a helper's pipes descriptor numbers:

* `process.stdout.fileno()` is a real, unique descriptor number whose real object is the read end of a pipe nobody ever
  writes to (a path that goes around every seam blocks until the run fork's wall-clock guard reports HARNESS-ERROR; it
  can never *silently* see an empty stream);
* `os.read / os.close / os.dup / os.dup2 / os.fstat / os.set_blocking / os.get_blocking / fcntl.fcntl(F_DUPFD*, F_GETFL,
  F_SETFL)` on such a number, `open(fd)`/`os.fdopen`/`io.FileIO` (a thin raw reader), `select.select`, `select.poll`,
  and `selectors.*Selector` (all mapped onto the simulated select) follow the helper's output timeline in virtual time;
* `os.pipe()` pairs are tracked so that `os.posix_spawn(path, argv, env, file_actions=[DUP2(w, 1), ...], setsid=...)`
  becomes a SimPopen whose stdout/stderr are what the tracked read ends deliver.

Installed before client.install_fd_seams, which wraps these functions for descriptors 0/1/2 and falls through to them.
"""
import errno as _errno
import io
import os
import select
import selectors
import signal

from .seams_base import Unmodelled

INF = float("inf")


class _FdReader(io.RawIOBase):
    """`open(fd, 'rb', 0)` / io.FileIO(fd) on a helper pipe"""

    def __init__(self, table, fd, closefd=True):
        self._t, self._fd, self._closefd = table, fd, closefd

    def readable(self):
        return True

    def fileno(self):
        return self._fd

    def readinto(self, b):
        data = self._t.read(self._fd, len(b))
        b[:len(data)] = data
        return len(data)

    def close(self):
        if not self.closed and self._closefd:
            self._t.close(self._fd)
        super().close()


class SimPoll:
    """select.poll() over helper pipes"""

    def __init__(self, table):
        self._t, self._reg = table, {}

    @staticmethod
    def _fd(x):
        return x if isinstance(x, int) else x.fileno()

    def register(self, fd, eventmask=select.POLLIN | select.POLLPRI | select.POLLOUT):
        self._reg[self._fd(fd)] = eventmask

    def modify(self, fd, eventmask):
        fd = self._fd(fd)
        if fd not in self._reg:
            raise OSError(_errno.ENOENT, os.strerror(_errno.ENOENT))
        self._reg[fd] = eventmask

    def unregister(self, fd):
        del self._reg[self._fd(fd)]

    def poll(self, timeout=None):
        t = self._t
        fds = list(self._reg)
        mine = [fd for fd in fds if fd in t.map]
        if len(mine) != len(fds):
            raise Unmodelled("select.poll() on descriptors other than a simulated helper's pipes")
        want = [fd for fd in mine if self._reg[fd] & (select.POLLIN | select.POLLPRI)]
        secs = None if timeout is None or timeout < 0 else timeout / 1000.0
        ready, _, _ = t.select(want, [], [], secs) if want else ([], [], [])
        if not want and secs:
            t.world.clock.sleep(secs)
        out = []
        for fd in ready:
            data, eof = t.state(fd)
            ev = (select.POLLIN if data else 0) | (select.POLLHUP if eof else 0)
            out.append((fd, ev or select.POLLIN))
        return out

    def close(self):
        self._reg.clear()


class ChildFds:
    def __init__(self, world, real):
        self.world, self.real = world, real
        self.map = {}  # descriptor number -> _ChildStream
        self.blocking = {}
        self.ident = {}  # descriptor number -> (pipe id, "r" | "w") for os.pipe() pairs not yet given to a helper
        self._n = 0
        self._never = None
        self._keep = []

    # -- allocation -----------------------------------------------------------------------------
    def _never_fd(self):
        if self._never is None:
            r, w = self.real["pipe"]()
            self._never = r
            self._keep.append(w)
            self._fifo_stat = self.real["fstat"](r)
        return self._never

    def fd_for(self, stream):
        if stream._fd is None:
            fd = self.real["dup"](self._never_fd())
            stream._fd = fd
            self.map[fd] = stream
            self.world.probe("fileno-of-helper-pipe")
        return stream._fd

    # -- stream state ---------------------------------------------------------------------------
    def state(self, fd):
        """(unread bytes available now, eof reached?) without blocking"""
        st = self.map[fd]
        p = st._proc
        p._resolve()
        p._start_reading()
        now = self.world.clock.now
        return p._avail(st._which, now)[st._pos:], now >= p._pipes_end()

    def _ready_time(self, fd):
        st = self.map[fd]
        p = st._proc
        data, eof = self.state(fd)
        if data or eof:
            return self.world.clock.now
        return min(p._next_output_time(st._which, self.world.clock.now), p._pipes_end())

    def read(self, fd, n):
        st = self.map[fd]
        if st.closed:
            raise OSError(_errno.EBADF, os.strerror(_errno.EBADF))
        if not self.blocking.get(fd, True):
            self.world.clock.advance(0.0002)
            data, eof = self.state(fd)
            if not data and not eof:
                raise BlockingIOError(_errno.EAGAIN, os.strerror(_errno.EAGAIN))
        else:
            data, eof = st._wait(lambda d: len(d) >= 1)
        data = data[:n]
        st._pos += len(data)
        return bytes(data)

    def close(self, fd):
        st = self.map.pop(fd, None)
        self.blocking.pop(fd, None)
        try:
            self.real["close"](fd)
        except OSError:
            pass
        if st is not None and not any(s is st for s in self.map.values()):
            if st._fd == fd:
                st._fd = None
            if getattr(st, "_fd_owned", False):  # created by posix_spawn: the descriptors are the only handles
                st.closed = True
                self.world.sched.notify(st._proc)

    def dup_of(self, fd, new):
        if fd in self.map:
            self.map[new] = self.map[fd]
            self.blocking[new] = self.blocking.get(fd, True)
        if fd in self.ident:
            self.ident[new] = self.ident[fd]

    # -- select ---------------------------------------------------------------------------------
    def fd_of(self, x):
        if isinstance(x, int):
            return x if x in self.map else None
        fd = getattr(x, "_fd", None) if type(x).__name__ == "_ChildStream" else None
        if fd is None and hasattr(x, "fileno"):
            try:
                fd = x.fileno()
            except (OSError, ValueError):
                return None
        return fd if fd in self.map else None

    def select(self, rlist, wlist, xlist, timeout=None):
        w = self.world
        fds = [self.fd_of(x) for x in rlist]
        if all(fd is None for fd in fds) and not any(self.fd_of(x) is not None for x in list(wlist) + list(xlist)):
            return self.real["select"](rlist, wlist, xlist, timeout)
        if any(fd is None for fd in fds) or wlist or xlist:
            raise Unmodelled("select on a simulated helper's pipes together with other descriptors")
        w.probe("select-on-helper-pipes")

        def ready():
            out = []
            for x, fd in zip(rlist, fds):
                data, eof = self.state(fd)
                if data or eof:
                    out.append(x)
            return out

        got = ready()
        if got or (timeout is not None and timeout <= 0):
            if not got:
                w.clock.advance(0.0002)  # a poll costs time: busy loops make progress
            return got, [], []
        on = self.map[fds[0]]._proc
        w.sched.wait_for(lambda: min(self._ready_time(fd) for fd in fds), timeout, on=on)
        return ready(), [], []

    # -- posix_spawn ----------------------------------------------------------------------------
    def pipe(self):
        r, w = self.real["pipe"]()
        self._n += 1
        self.ident[r], self.ident[w] = (self._n, "r"), (self._n, "w")
        return r, w

    def posix_spawn(self, path, argv, env, *, file_actions=None, setpgroup=None, resetids=False, setsid=False,
                    setsigmask=(), setsigdef=(), scheduler=None):
        from . import seams
        w = self.world
        stdio = {0: None, 1: None, 2: None}
        pipes = {}
        for act in (file_actions or ()):
            kind = act[0]
            if kind == os.POSIX_SPAWN_OPEN:
                _, fd, fpath, flags, mode = act
                if fd not in stdio:
                    continue
                if os.fsdecode(fpath) == os.devnull:
                    stdio[fd] = seams.DEVNULL
                else:
                    real_fd = self.real["open"](fpath, flags, mode)
                    self._keep.append(real_fd)
                    stdio[fd] = real_fd
            elif kind == os.POSIX_SPAWN_DUP2:
                _, src, dst = act
                if dst not in stdio:
                    continue
                idn = self.ident.get(src)
                if idn is not None and idn[1] == "w" and dst in (1, 2):
                    stdio[dst] = seams.PIPE
                    pipes[dst] = idn[0]
                elif idn is not None or src in (0, 1, 2) or src in self.map:
                    raise Unmodelled("posix_spawn: descriptor %d := %d" % (dst, src))
                else:
                    stdio[dst] = src
            elif kind == os.POSIX_SPAWN_CLOSE:
                if act[1] in stdio:
                    raise Unmodelled("posix_spawn: close of descriptor %d in the child" % act[1])
            else:
                raise Unmodelled("posix_spawn file action %r" % (act,))
        if pipes.get(1) is not None and pipes.get(1) == pipes.get(2):
            raise Unmodelled("posix_spawn: stdout and stderr into one pipe")
        w.probe("posix-spawn")
        p = seams.SimPopen([os.fsdecode(a) for a in argv], executable=path, stdin=stdio[0], stdout=stdio[1],
                           stderr=stdio[2], start_new_session=bool(setsid),
                           process_group=(setpgroup if setpgroup is not None else None), env=env)
        for dst, st in ((1, p.stdout), (2, p.stderr)):
            pid_ = pipes.get(dst)
            if pid_ is None:
                continue
            st._fd_owned = True
            nread = 0
            for fd, idn in list(self.ident.items()):
                if idn[0] != pid_:
                    continue
                if idn[1] == "r":
                    self.map[fd] = st
                    st._fd = fd
                    nread += 1
                else:
                    # the parent's copy of the write end: it will close it; a private duplicate stays open so that
                    # a read that goes around the seams blocks instead of seeing an empty stream
                    self._keep.append(self.real["dup"](fd))
                del self.ident[fd]
            if not nread:
                st.closed = True
        return p.pid


def install(world):
    import builtins
    import fcntl

    real = {n: getattr(os, n) for n in ("read", "close", "dup", "dup2", "fstat", "set_blocking", "get_blocking",
                                        "pipe", "open", "isatty")}
    real["select"] = select.select
    real_fcntl = fcntl.fcntl
    t = ChildFds(world, real)
    world.childfds = t

    def sim_read(fd, n):
        if fd in t.map:
            return t.read(fd, n)
        return real["read"](fd, n)

    def sim_close(fd):
        if fd in t.map or fd in t.ident:
            t.ident.pop(fd, None)
            return t.close(fd)
        return real["close"](fd)

    def sim_dup(fd):
        new = real["dup"](fd)
        t.dup_of(fd, new)
        return new

    def sim_dup2(fd, fd2, inheritable=True):
        if fd2 in t.map or fd2 in t.ident:
            t.map.pop(fd2, None)
            t.ident.pop(fd2, None)
        r = real["dup2"](fd, fd2, inheritable)
        if fd != fd2:
            t.dup_of(fd, fd2)
        return r

    def sim_fstat(fd):
        if fd in t.map:
            t._never_fd()
            return t._fifo_stat
        return real["fstat"](fd)

    def sim_set_blocking(fd, flag):
        if fd in t.map:
            t.blocking[fd] = bool(flag)
            return None
        return real["set_blocking"](fd, flag)

    def sim_get_blocking(fd):
        if fd in t.map:
            return t.blocking.get(fd, True)
        return real["get_blocking"](fd)

    def sim_fcntl(fd, cmd, arg=0):
        n = fd if isinstance(fd, int) else fd.fileno()
        if cmd in (fcntl.F_DUPFD, getattr(fcntl, "F_DUPFD_CLOEXEC", -1)):
            new = real_fcntl(n, cmd, arg)
            t.dup_of(n, new)
            return new
        if n in t.map:
            if cmd == fcntl.F_GETFL:
                return os.O_RDONLY | (0 if t.blocking.get(n, True) else os.O_NONBLOCK)
            if cmd == fcntl.F_SETFL:
                t.blocking[n] = not (arg & os.O_NONBLOCK)
                return 0
            if cmd in (fcntl.F_GETFD, fcntl.F_SETFD):
                return real_fcntl(n, cmd, arg)
            raise Unmodelled("fcntl(%d, %r) on a simulated helper's pipe" % (n, cmd))
        return real_fcntl(fd, cmd, arg)

    os.read, os.close, os.dup, os.dup2 = sim_read, sim_close, sim_dup, sim_dup2
    os.fstat, os.set_blocking, os.get_blocking = sim_fstat, sim_set_blocking, sim_get_blocking
    os.pipe = t.pipe
    fcntl.fcntl = sim_fcntl
    if hasattr(os, "posix_spawn"):
        os.posix_spawn = t.posix_spawn
        os.posix_spawnp = t.posix_spawn

    real_open, real_fdopen, real_FileIO = builtins.open, os.fdopen, io.FileIO

    def layer(fd, mode, buffering, encoding, errors, newline, closefd):
        if "w" in mode or "a" in mode or "+" in mode:
            raise OSError(_errno.EBADF, os.strerror(_errno.EBADF))
        raw = _FdReader(t, fd, closefd)
        if "b" in mode and buffering == 0:
            return raw
        buf = io.BufferedReader(raw, buffering if isinstance(buffering, int) and buffering > 1 else 8192)
        if "b" in mode:
            return buf
        return io.TextIOWrapper(buf, encoding=encoding or "utf-8", errors=errors, newline=newline)

    def sim_open(file, mode="r", buffering=-1, encoding=None, errors=None, newline=None, closefd=True, opener=None):
        if isinstance(file, int) and not isinstance(file, bool) and file in t.map:
            return layer(file, mode, buffering, encoding, errors, newline, closefd)
        return real_open(file, mode, buffering, encoding, errors, newline, closefd, opener)

    def sim_fdopen(fd, mode="r", buffering=-1, encoding=None, *a, **k):
        if isinstance(fd, int) and fd in t.map:
            return sim_open(fd, mode, buffering, encoding, *a, **k)
        return real_fdopen(fd, mode, buffering, encoding, *a, **k)

    def sim_FileIO(file, mode="r", closefd=True, opener=None):
        if isinstance(file, int) and not isinstance(file, bool) and file in t.map:
            return layer(file, mode if "b" in mode else mode + "b", 0, None, None, None, closefd)
        return real_FileIO(file, mode, closefd, opener)

    builtins.open = sim_open
    io.open = sim_open
    io.FileIO = sim_FileIO
    os.fdopen = sim_fdopen

    select.select = t.select
    real_poll = select.poll

    def sim_poll():
        return SimPoll(t)

    select.poll = sim_poll
    # every selector goes through the (current) select.select: module attribute looked up at call time, so that the
    # daemon session's layer for descriptors 0/1/2, installed later, is seen too
    selectors.SelectSelector._select = staticmethod(lambda r, w, x, timeout=None: select.select(r, w, x, timeout))
    for name in ("PollSelector", "EpollSelector", "DevpollSelector", "KqueueSelector", "DefaultSelector"):
        if hasattr(selectors, name):
            setattr(selectors, name, selectors.SelectSelector)
    if hasattr(select, "epoll"):
        def no_epoll(*a, **k):
            raise Unmodelled("select.epoll")
        select.epoll = no_epoll
    return t
