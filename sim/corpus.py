"""Workload corpus (DESIGN §2.7).  A few hundred request templates tagged with the state channel
they stress.  This is a workload, not the deciding technique: what is searched is order,
configuration, hash seed, stream schedule and faults.

Every template takes a small integer `n` so that near-duplicate requests exist (same call text,
different body; same body, different number) - the shapes that confuse caches.
"""
import base64
import glob
import json
import os

HDR = "from stationeers_pytrapic.symbols import *\n"
OPTION_FIELDS = ["original_code_as_comment", "generated_comments", "inline_functions", "remove_labels",
                 "append_version", "compact", "tail_call_optimization", "use_push_pop_functions"]


def _read(p):
    with open(p, encoding="utf-8") as f:
        return f.read()


def repo_programs(repo_root):
    """family R: the repository's own programs, read from the working tree at run time"""
    out = []
    for p in sorted(glob.glob(os.path.join(repo_root, "test", "cases", "*.py"))):
        out.append({"id": "R/case/" + os.path.basename(p)[:-3], "family": "R", "src": {"": _read(p)}})
    for p in sorted(glob.glob(os.path.join(repo_root, "src", "stationeers_pytrapic", "examples", "*.py"))):
        if "__init__" in p:
            continue
        out.append({"id": "R/example/" + os.path.basename(p)[:-3], "family": "R", "src": {"": _read(p)}})
    libs = {}
    for p in sorted(glob.glob(os.path.join(repo_root, "test", "mod_libraries", "*.py"))):
        libs[os.path.basename(p)[:-3]] = _read(p)
    for p in sorted(glob.glob(os.path.join(repo_root, "test", "mod_scripts", "*.py"))):
        main = _read(p)
        mods = {}
        for name in libs:  # same rule as test_libraries.find_imported_libraries, textually
            if ("from library import %s" % name) in main:
                mods[name] = libs[name]
        mods[""] = main
        out.append({"id": "R/script/" + os.path.basename(p)[:-3], "family": "L" if len(mods) > 2 else "R", "src": mods})
    for e in out:
        e["constexpr"] = "@constexpr" in e["src"][""]
    return out


_PREFIX_NAMES = (HDR + "def tick():\n    db.Setting = %d\n\ndef tick_slow():\n    d0.Setting = %d\n\ndef tick_slow_er():\n    d1.Setting = %d\n\n"
                 "def update():\n    tick()\n    tick_slow()\n\ndef update_display():\n    tick_slow_er()\n    tick()\n\n"
                 "while True:\n    update()\n    update_display()\n    tick_slow()\n    tick_slow_er()\n    update()\n    update_display()\n    yield_()\n")


# --- M: output-mode channel -----------------------------------------------------------------------
def family_M(n):
    v = 3 + n
    return [
        ("M/enum_operand", HDR + "d = ConsoleLED1x2(d0)\nd.Mode = DisplayMode.String\nd.Setting = %d\n" % v),
        ("M/enum_value_expr", HDR + "x = SortingClass.Ores\ndb.Setting = x + %d\n" % v),
        ("M/hash_str", HDR + "db.Setting = HASH(\"ItemSteelIngot%d\")\nd1.Setting = STR(\"Hi%d\")\n" % (n, n)),
        ("M/batch", HDR + "GrowLights.On = %d\nc = Batteries.Average.Charge\ndb.Setting = c\n" % (v % 2)),
        ("M/named_batch", HDR + "GrowLights[\"Bank%d\"].On = True\nb = Batteries[\"Bank%d\"].Average\ndb.Setting = b.Charge\n" % (n, n)),
        ("M/int_small", HDR + "db.Setting = %d\n" % (9000 + n)),
        ("M/int_large", HDR + "db.Setting = %d\nd1.Setting = %d\n" % (10001 + n, 123456789 + n)),
        ("M/prefab_literal", HDR + "db.Setting = -1668992663\nd1.Setting = %d\n" % (20000 + n)),
        ("M/slot", HDR + "srt = Sorter(d0)\ndb.Setting = srt[0].Quantity\nd1.Setting = srt[%d].OccupantHash\n" % (n % 3)),
        ("M/batch_mode_enum", HDR + "x = SolarPanels.Vertical.Maximum\ny = SolarPanels.Minimum.Horizontal\ndb.Setting = x + y + %d\n" % v),
        ("M/float", HDR + "db.Setting = 0.000%d5\nd1.Setting = 1.5e%d\nd2.Setting = %d.25\n" % (n + 1, n + 2, v)),
        # function names that are prefixes of one another (labels `tick`, `tick.slow`, ...), not inlined (called twice)
        # generated batch devices whose prefab hash is a large positive number (decimal only because it is a known hash)
        ("M/batch_positive_hash", HDR + "while True:\n    yield_()\n    Autolathes.On = PipeAnalysizers[\"Feed%d\"].Pressure.Average > 100\n" % n),
        ("M/batch_positive_hash_compact", "# pytrapic: compact, remove-labels\n" + HDR + "while True:\n    yield_()\n    Autolathes.On = PipeAnalysizers[\"Feed%d\"].Pressure.Average > 100\n" % n),
        ("M/prefix_names", _PREFIX_NAMES % (v, v + 1, v + 2)),
        ("M/prefix_names_pragma", "# pytrapic: remove-labels, no-inline-functions\n" + _PREFIX_NAMES % (v, v + 1, v + 2)),
        ("M/prefix_names_compact", "# pytrapic: remove-labels, no-inline-functions, compact\n" + _PREFIX_NAMES % (v + 1, v, v + 2)),
    ]


# --- K: constexpr cache channel ---------------------------------------------------------------------
def family_K(n):
    a = n + 2
    body_variants = [
        "    return x * 2 + %d\n" % n,
        "    return x * 3 + %d\n" % n,
    ]
    out = []
    # identical call text f(5), different bodies
    for bi, body in enumerate(body_variants):
        out.append(("K/same_call_body%d" % bi, HDR + "@constexpr\ndef f(x):\n" + body + "db.Setting = f(5)\n"))
    # same body, different arguments
    out.append(("K/same_body_args", HDR + "@constexpr\ndef f(x):\n    return x * 2 + 1\ndb.Setting = f(%d)\n" % a))
    out.append(("K/two_calls", HDR + "@constexpr\ndef f(x):\n    return x + %d\n@constexpr\ndef g(x):\n    return x - %d\ndb.Setting = f(1)\nd1.Setting = g(1)\nd2.Setting = f(1)\n" % (n, n)))
    out.append(("K/hash_body", HDR + "@constexpr\ndef build_ins(name, count):\n    return HASH(name) << 16 | count << 8 | %d\nlathe = Stack(d0)\nlathe[0] = build_ins(\"ItemCableCoil\", 50)\n" % (n % 4)))
    out.append(("K/returns_float", HDR + "@constexpr\ndef f(x):\n    return x / 7 + %d\ndb.Setting = f(1)\n" % n))
    out.append(("K/returns_list", HDR + "@constexpr\ndef f(x):\n    return [x, %d, 3]\nv = f(1)\ndb.Setting = v[1]\n" % (n + 7)))
    out.append(("K/returns_none", HDR + "@constexpr\ndef f(x):\n    y = x + %d\ndb.Setting = f(1)\n" % n))
    out.append(("K/returns_str", HDR + "@constexpr\ndef f(x):\n    return \"s%d\"\ndb.Setting = f(1)\n" % n))
    out.append(("K/returns_nan", HDR + "@constexpr\ndef f(x):\n    return float(\"nan\")\ndb.Setting = f(%d)\n" % n))
    out.append(("K/returns_inf", HDR + "@constexpr\ndef f(x):\n    return float(\"inf\")\ndb.Setting = f(%d)\n" % n))
    out.append(("K/returns_bool", HDR + "@constexpr\ndef f(x):\n    return x > %d\ndb.Setting = f(2)\n" % n))
    out.append(("K/raises", HDR + "@constexpr\ndef f(x):\n    return 1 // (x - x) + %d\ndb.Setting = f(1)\n" % n))
    out.append(("K/raises_custom", HDR + "@constexpr\ndef f(x):\n    raise ValueError(\"bad %d \\xe9\")\ndb.Setting = f(1)\n" % n))
    out.append(("K/prints", HDR + "@constexpr\ndef f(x):\n    print(\"debug\", x)\n    return x + %d\ndb.Setting = f(1)\n" % n))
    out.append(("K/prints_stderr", HDR + "@constexpr\ndef f(x):\n    import sys\n    print(\"warn\", file=sys.stderr)\n    return x + %d\ndb.Setting = f(1)\n" % n))
    out.append(("K/sys_exit0", HDR + "@constexpr\ndef f(x):\n    import sys\n    sys.exit(0)\ndb.Setting = f(%d)\n" % n))
    out.append(("K/sys_exit3", HDR + "@constexpr\ndef f(x):\n    import sys\n    sys.exit(3)\ndb.Setting = f(%d)\n" % n))
    out.append(("K/os_exit", HDR + "@constexpr\ndef f(x):\n    import os\n    os._exit(0)\ndb.Setting = f(%d)\n" % n))
    out.append(("K/spins", HDR + "@constexpr\ndef f(x):\n    while True:\n        pass\ndb.Setting = f(%d)\n" % n))
    out.append(("K/spins_for", HDR + "@constexpr\ndef f(x):\n    t = 0\n    for i in range(10**12):\n        t += i\n    return t\ndb.Setting = f(%d)\n" % n))
    out.append(("K/sleeps_long", HDR + "@constexpr\ndef f(x):\n    import time\n    time.sleep(5)\n    return x\ndb.Setting = f(%d)\n" % n))
    out.append(("K/sleeps_medium", HDR + "@constexpr\ndef f(x):\n    import time\n    time.sleep(1.5)\n    return x + 2\ndb.Setting = f(%d)\n" % n))
    out.append(("K/sleeps_short", HDR + "@constexpr\ndef f(x):\n    import time\n    time.sleep(0.04)\n    return x + 1\ndb.Setting = f(%d)\n" % n))
    out.append(("K/reads_stdin", HDR + "@constexpr\ndef f(x):\n    return len(input()) + x\ndb.Setting = f(%d)\n" % n))
    out.append(("K/reads_stdin_all", HDR + "@constexpr\ndef f(x):\n    import sys\n    return len(sys.stdin.read()) + x\ndb.Setting = f(%d)\n" % n))
    out.append(("K/recursive_body", HDR + "@constexpr\ndef f(x):\n    return f(x + 1)\ndb.Setting = f(%d)\n" % n))
    out.append(("K/big_output", HDR + "@constexpr\ndef f(x):\n    return [1] * 200000\nv = f(%d)\ndb.Setting = v[0]\n" % n))
    out.append(("K/syntax_in_args", HDR + "@constexpr\ndef f(x, y=2):\n    return x * y + %d\ndb.Setting = f(3, y=4)\nd1.Setting = f(3)\n" % n))
    out.append(("K/nested_constexpr", HDR + "@constexpr\ndef g(x):\n    return x + %d\n@constexpr\ndef f(x):\n    return g(x) * 2\ndb.Setting = f(3)\n" % n))
    out.append(("K/in_loop", HDR + "@constexpr\ndef f(x):\n    return x * x + %d\nwhile True:\n    db.Setting = f(4)\n    yield_()\n" % n))
    out.append(("K/undefined_name", HDR + "@constexpr\ndef f(x):\n    return x + undefined_thing_%d\ndb.Setting = f(1)\n" % n))
    # several constexpr calls in one program whose helpers behave differently (an implementation that starts them
    # together, or gives up after the first, must still clean up all of them)
    out.append(("K/first_prints_second_spins", HDR + "@constexpr\ndef a(x):\n    print(\"dbg\")\n    return x\n@constexpr\ndef b(x):\n    while True:\n        pass\ndb.Setting = a(%d)\nd1.Setting = b(2)\n" % n))
    out.append(("K/first_raises_second_spins", HDR + "@constexpr\ndef a(x):\n    return 1 // (x - x)\n@constexpr\ndef b(x):\n    while True:\n        pass\ndb.Setting = a(%d)\nd1.Setting = b(2)\n" % n))
    out.append(("K/first_ok_second_sleeps_third_spins", HDR + "@constexpr\ndef a(x):\n    return x + %d\n@constexpr\ndef b(x):\n    import time\n    time.sleep(5)\n    return x\n@constexpr\ndef c(x):\n    while True:\n        pass\ndb.Setting = a(1)\nd1.Setting = 1 // 0\nd2.Setting = b(2)\nd3.Setting = c(3)\n" % n))
    # a constexpr result that is a (mutable) list, used where the code generator builds tables from it: iteration and a
    # run-time index (jump table, odd and even length).  A cached result handed out by reference and modified by a
    # later pass changes what the *next* compilation of the same program sees.
    out.append(("K/list_runtime_index_odd", HDR + "@constexpr\ndef table():\n    return [10 * k + %d for k in range(7)]\nT = table()\nfor v in T:\n    db.Setting = v\n    yield_()\ni = d0.Setting\ndb.Setting = T[i]\n" % (n + 3)))
    out.append(("K/list_runtime_index_even", HDR + "@constexpr\ndef table(m):\n    return [k * k + m for k in range(8)]\nT = table(%d)\ni = d0.Setting\nd1.Setting = T[i]\nd2.Setting = T[0] + T[7]\n" % (n + 1)))
    out.append(("K/list_iterated_twice", HDR + "@constexpr\ndef steps():\n    return [%d, 5, 8, 13, 21]\nfor st in steps():\n    db.Setting = st\nfor st in steps():\n    d1.Setting = st\nS = steps()\ni = d0.Setting\nd2.Setting = S[i]\n" % (n + 2)))
    out.append(("K/many_calls", HDR + "@constexpr\ndef f(x):\n    return x * x + %d\n" % n + "".join("d%d.Setting = f(%d)\n" % (i % 6, i) for i in range(7))))
    # the same constexpr function and call further down in the file (as after the user inserted lines above it):
    # identical evaluation script, different position of the call
    shift = "".join("# line %d of a comment block\n" % i for i in range(17))
    for ident, src in list(out):
        if ident in ("K/raises", "K/raises_custom", "K/undefined_name", "K/sys_exit3", "K/same_call_body0", "K/spins", "K/returns_nan"):
            out.append((ident + "_shifted", src.replace(HDR, HDR + shift, 1)))
    return out


def family_K_lib(n):
    """equal function names in two library modules"""
    lib_a = HDR + "@constexpr\ndef val(x):\n    return x + %d\n" % n
    lib_b = HDR + "@constexpr\ndef val(x):\n    return x * 10 + %d\n" % n
    main = HDR + "from library import liba\nfrom library import libb\ndb.Setting = liba.val(1)\nd1.Setting = libb.val(1)\n"
    return [("K/lib_same_name", {"liba": lib_a, "libb": lib_b, "": main})]


# --- O: options channel ---------------------------------------------------------------------------
def family_O(n):
    body = HDR + "def fn():\n    d = ConsoleLED1x2(d0)\n    d.Mode = DisplayMode.String\n    d.Setting = STR(\"A%d\")\nwhile True:\n    fn()\n" % n
    out = [("O/plain", body)]
    directives = [
        ("compact", "# pytrapic: compact\n"),
        ("no_append", "# pytrapic: no-append-version\n"),
        ("multi", "# pytrapic: compact, no-inline-functions, remove_labels\n"),
        ("spellings", "# pytrapic: no_compact\n# pytrapic: no-remove-labels\n#pytrapic:inline_functions\n"),
        ("several_lines", "# pytrapic: compact\n# pytrapic: no-append-version\n# pytrapic: inline-functions\n# pytrapic: remove-labels\n"),
        ("unknown", "# pytrapic: does-not-exist, compact_, no-\n"),
        ("dunder", "# pytrapic: __class__\n"),
        ("dunder2", "# pytrapic: __dict__, __doc__, no-__module__\n"),
        ("comments_all", "# pytrapic: original-code-as-comment, generated-comments\n"),
        ("tco", "# pytrapic: tail-call-optimization, use-push-pop-functions, no-inline-functions\n"),
        ("in_string", "s = \"# pytrapic: compact\"\n"),
        ("trailing", "x = 1  # pytrapic: compact\n"),
        ("empty", "# pytrapic:\n"),
        ("weird_ws", "   #   pytrapic:   compact  ,   no-append-version   \n"),
    ]
    for name, d in directives:
        out.append(("O/dir_" + name, d + body))
        out.append(("O/dir_" + name + "_end", body + d))
    return out


# --- D: singleton channel -------------------------------------------------------------------------
def family_D(n):
    v = n + 1
    return [
        ("D/alias_true", HDR + "p = SolarPanel(d1, alias=True)\np.Horizontal = %d\n" % v),
        ("D/alias_name", HDR + "p = SolarPanel(d2, alias=\"PANEL_%d\")\np.Horizontal = %d\n" % (n, v)),
        ("D/alias_db", HDR + "p = SolarPanel(db, alias=\"SELF\")\np.Vertical = %d\ndb.Setting = %d\n" % (v, v)),
        ("D/stack_ref", HDR + "st = Stack(ref_id=%d)\nst[0] = %d\nx = st[1]\ndb.Setting = x\n" % (0x3455 + n, v)),
        ("D/stack_dev", HDR + "st = Stack(d0)\nst[%d] = 5\ndb.Setting = st[0]\n" % (n % 4)),
        ("D/stack_self", HDR + "stack[%d] = 7\ndb.Setting = stack[1]\n" % (n % 4)),
        ("D/define", HDR + "X = %d\ndb.Setting = X * 2\nd0.Setting = X\n" % (40 + n)),
        ("D/explicit_regs", HDR + "r%d = 5\ndb.Setting = r%d\nsp = 10\npush(r%d)\n" % (n % 8, n % 8, n % 8)),
        ("D/generic_device", HDR + "dev = Device(d3)\ndev.Setting = %d\nx = dev.Temperature\ndb.Setting = x\n" % v),
        ("D/generic_devices", HDR + "devs = Devices(HASH(\"StructureWallLight\"))\ndevs.On = %d\n" % (v % 2)),
        ("D/generic_devices_numeric", HDR + "buttons = Devices(1462769197, \"panel%d\")\ndb.Setting = buttons.Setting.Maximum\n" % n),
        ("D/generic_devices_numeric2", HDR + "things = Devices(%d)\nthings.On = 1\n" % (123456789 + n)),
        ("D/ref_id_device", HDR + "light = GrowLight(ref_id=%d)\nlight.Lock = True\n" % (0x123 + n)),
        # the same names defined in one request and only referred to in another
        ("D/defines_names", HDR + "total = %d\ncount = 2\ndef report():\n    db.Setting = total\ndef update(x):\n    return x + count\nwhile True:\n    report()\n    d0.Setting = update(3)\n    report()\n    yield_()\n" % n),
        ("D/uses_undefined_names", HDR + "d1.Setting = update(%d)\nreport()\n" % n),
        ("D/uses_skipped_def", HDR + "DEBUG = False\nif DEBUG:\n    def report():\n        db.Setting = %d\nreport()\n" % n),
        ("D/uses_skipped_def2", HDR + "if False:\n    def update(x):\n        return x\n    total = 1\ndb.Setting = update(%d) + total\n" % n),
        ("D/define_call", HDR + "define(\"LIMIT\", %d)\ndefine(\"RATE\", 2.5)\nd0.Setting = LIMIT\n" % (300 + n)),
        ("D/names_like_defines", HDR + "LIMIT = d0.Setting\nRATE = d1.Setting\nif LIMIT > RATE + %d:\n    db.Setting = LIMIT + 5\n" % n),
        ("D/names_like_constants", HDR + "pi = d0.Setting\ntau = pi + %d\ndb.Setting = tau\n" % n),
        ("D/sp_assign", HDR + "sp = %d\npush(1)\ndb.Setting = sp\n" % n),
        ("D/sp_augment", HDR + "sp += %d\nsp += 2\nx = pop()\ndb.Setting = x\n" % (n + 1)),
        ("D/ra_assign", HDR + "ra = %d\ndb.Setting = ra\n" % (n + 3)),
        ("D/sp_read", HDR + "db.Setting = sp\nsp = sp + %d\n" % (n + 1)),
        # general-purpose hardware registers named explicitly (whatever the compiler makes of them, it must make the
        # same of the next program as a fresh process would: register pools are per compilation)
        ("D/named_registers_read", HDR + "x = d0.Setting\ny = d1.Setting\ndb.Setting = x * y + r0 + r7 + %d\n" % n),
        ("D/named_registers_write", HDR + "r1 = d0.Setting\nr15 = r1 + %d\ndb.Setting = r15\nz = d1.Setting\nd2.Setting = z * z\n" % (n + 1)),
        ("D/plain_then", HDR + "p = SolarPanel(d1)\np.Horizontal = %d\nq = SolarPanel(d2)\nq.Horizontal = p.Horizontal\n" % v),
        ("D/reassign_error", HDR + "p = SolarPanel(d1)\np = SolarPanel(d2)\np.Horizontal = %d\n" % v),
    ]


# --- L: multi-module programs (hash-order channel) ------------------------------------------------
def family_L(n):
    def lib(name, k):
        return (HDR + "count_%s = %d\nlimit_%s = %d\n\ndef init():\n    global count_%s\n    count_%s = %d\n\n"
                "def update():\n    global count_%s\n    count_%s += limit_%s\n    d%d.Setting = count_%s\n\n"
                "if __name__ == \"__main__\":\n    init()\n" % (name, k, name, k + 1, name, name, k + 2, name, name, name, k % 6, name))
    out = []
    for count in (2, 3, 4):
        names = ["alpha", "beta", "gamma", "delta"][:count]
        mods = {}
        main = HDR
        for i, nm in enumerate(names):
            mods[nm] = lib(nm, n + i)
            main += "from library import %s\n" % nm
        main += "total = %d\n" % n
        for nm in names:
            main += "%s.init()\n" % nm
        main += "while True:\n    yield_()\n"
        for nm in names:
            main += "    %s.update()\n" % nm
        main += "    total += 1\n    db.Setting = total\n"
        mods[""] = main
        out.append(("L/libs%d" % count, mods))
    # a library that is submitted but never imported (the host sends its whole library folder)
    mods = {"alpha": lib("alpha", n), "zeta": lib("zeta", n + 3), "beta": lib("beta", n + 1)}
    mods[""] = HDR + "from library import alpha\nfrom library import beta\nalpha.init()\nbeta.init()\nwhile True:\n    alpha.update()\n    beta.update()\n    yield_()\n"
    out.append(("L/unused_extra", mods))
    mods = {"zeta": lib("zeta", n), "": HDR + "db.Setting = %d\n" % n}
    out.append(("L/unused_only", mods))
    # import alias
    mods = {"alpha": lib("alpha", n), "beta": lib("beta", n + 1)}
    mods[""] = HDR + "from library import alpha as A\nfrom library import beta as B\nA.init()\nB.init()\nwhile True:\n    A.update()\n    B.update()\n    yield_()\n"
    out.append(("L/alias", mods))
    return out


# --- E: failing requests --------------------------------------------------------------------------
def family_E(n):
    deep_if = HDR + "x = d0.Setting\n" + "".join("    " * i + "if x > %d:\n" % i for i in range(40)) + "    " * 40 + "db.Setting = %d\n" % n
    many_vars = HDR + "".join("v%d = d0.Setting + %d\n" % (i, i) for i in range(24)) + "db.Setting = " + " + ".join("v%d" % i for i in range(24)) + " + %d\n" % n
    long_expr = HDR + "x = d0.Setting\ndb.Setting = " + " + ".join(["x"] * 1500) + " + %d\n" % n
    return [
        ("E/syntax", HDR + "x = = %d\n" % n),
        ("E/syntax_unclosed", HDR + "db.Setting = (1 + %d\n" % n),
        ("E/syntax_indent", HDR + "if True:\ndb.Setting = %d\n" % n),
        ("E/syntax_tab", HDR + "if True:\n\tx = 1\n        y = %d\n" % n),
        ("E/unsupported_class", HDR + "class A:\n    x = %d\n" % n),
        ("E/unsupported_lambda", HDR + "f = lambda x: x + %d\ndb.Setting = f(1)\n" % n),
        ("E/unsupported_with", HDR + "with open(\"f\") as f:\n    db.Setting = %d\n" % n),
        ("E/unsupported_try", HDR + "try:\n    db.Setting = %d\nexcept Exception:\n    pass\n" % n),
        ("E/unsupported_comp", HDR + "x = [i for i in range(%d)]\n" % (n + 2)),
        ("E/unsupported_dict", HDR + "x = {1: %d}\ndb.Setting = x[1]\n" % n),
        ("E/unsupported_fstring", HDR + "db.Setting = f\"{%d}\"\n" % n),
        ("E/unsupported_await", HDR + "async def f():\n    await g()\n"),
        ("E/unsupported_del", HDR + "x = %d\ndel x\n" % n),
        ("E/unsupported_assert", HDR + "assert d0.Setting == %d\n" % n),
        ("E/unsupported_star", HDR + "a, *b = 1, 2, %d\n" % n),
        ("E/unsupported_walrus", HDR + "if (y := d0.Setting) > %d:\n    db.Setting = y\n" % n),
        ("E/unsupported_match", HDR + "match d0.Setting:\n    case %d:\n        db.Setting = 1\n" % n),
        ("E/break_toplevel", HDR + "break\n"),
        ("E/continue_toplevel", HDR + "continue\n"),
        ("E/return_toplevel", HDR + "return %d\n" % n),
        ("E/recursion_direct", HDR + "def f(x):\n    return f(x - 1) + %d\ndb.Setting = f(d0.Setting)\n" % n),
        ("E/recursion_with_helper", HDR + "def h(x):\n    return x + %d\ndef f(x):\n    return f(h(x)) + 1\ndb.Setting = f(d0.Setting)\n" % n),
        ("E/recursion_helper_calls_back", HDR + "def h(x):\n    return x + %d\ndef g(x):\n    y = h(x)\n    return g(y)\ndef f(x):\n    return g(x) + h(x)\ndb.Setting = f(d0.Setting)\n" % n),
        ("E/recursion_mutual", HDR + "def f(x):\n    return g(x - 1)\ndef g(x):\n    return f(x) + %d\ndb.Setting = f(d0.Setting)\n" % n),
        ("E/undefined_name", HDR + "db.Setting = nothing_here + %d\n" % n),
        ("E/undefined_func", HDR + "db.Setting = nofunc(%d)\n" % n),
        ("E/write_builtin", HDR + "d0 = %d\n" % n),
        ("E/bad_attr", HDR + "db.NoSuchLogicTypeAtAll = %d\n" % n),
        ("E/bad_args", HDR + "def f(a, b):\n    return a + b\ndb.Setting = f(%d)\n" % n),
        ("E/too_many_args", HDR + "def f(a):\n    return a\ndb.Setting = f(1, 2, %d)\n" % n),
        ("E/out_of_registers", many_vars),
        ("E/deep_if", deep_if),
        ("E/long_expr", long_expr),
        ("E/empty", ""),
        ("E/only_comment", "# nothing %d\n" % n),
        ("E/only_import", HDR),
        ("E/only_ws", "   \n\n\t\n"),
        ("E/nul_byte", HDR + "x = 1\x00\ndb.Setting = %d\n" % n),
        ("E/bom", "\ufeff" + HDR + "db.Setting = %d\n" % n),
        ("E/form_feed", HDR + "x = 1\n\x0cdb.Setting = %d\n" % n),
        ("E/crlf", (HDR + "x = %d\nif x:\n    db.Setting = x\n" % n).replace("\n", "\r\n")),
        ("E/cr_only", (HDR + "db.Setting = %d\n" % n).replace("\n", "\r")),
        ("E/unicode_ident", HDR + "gr\u00f6\u00dfe = %d\ndb.Setting = gr\u00f6\u00dfe\n" % n),
        ("E/unicode_comment", HDR + "# \u2603 \U0001F600 snow\ndb.Setting = %d  # \u00e9\u00e8\n" % n),
        ("E/surrogate", HDR + "s = \"\\ud800\"\ndb.Setting = %d\n" % n),
        ("E/lone_surrogate_string", HDR + "s = \"caf\ud83d\"\ndb.Setting = %d\n" % n),
        ("E/lone_surrogate_comment", HDR + "db.Setting = %d  # half an emoji: \ude00\n" % n),
        ("E/lone_surrogate_ident", HDR + "x\udc00y = %d\ndb.Setting = 1\n" % n),
        ("E/lua", "require \"x\"\nlocal a = %d\n" % n),
        ("E/lua_comment", "-- lua\nprint(%d)\n" % n),
        ("E/huge_int", HDR + "db.Setting = 1 << %d\n" % (70 + n)),
        ("E/huge_pow", HDR + "db.Setting = 10 ** %d\n" % (400 + n)),
        ("E/div_zero_const", HDR + "db.Setting = %d / 0\n" % (n + 1)),
        ("E/mod_zero_const", HDR + "db.Setting = %d %% 0\n" % (n + 1)),
        ("E/neg_shift", HDR + "db.Setting = 1 << -%d\n" % (n + 1)),
        ("E/float_shift", HDR + "db.Setting = 1.5 << %d\n" % (n + 1)),
        ("E/str_arith", HDR + "db.Setting = \"a\" + %d\n" % n),
        ("E/hash_nonconst", HDR + "x = d0.Setting\ndb.Setting = HASH(x)\n"),
        ("E/str_too_long", HDR + "db.Setting = STR(\"much too long %d\")\n" % n),
        ("E/hash_no_args", HDR + "db.Setting = HASH()\n"),
        ("E/subscript_oob", HDR + "a = [1, 2, %d]\ndb.Setting = a[7]\n" % n),
        ("E/global_undefined", HDR + "def f():\n    global zz\n    zz = %d\nf()\n" % n),
        ("E/nested_def", HDR + "def f():\n    def g():\n        return %d\n    return g()\ndb.Setting = f()\n" % n),
        ("E/decorator_unknown", HDR + "@staticmethod\ndef f():\n    return %d\ndb.Setting = f()\n" % n),
        ("E/constexpr_no_call", HDR + "@constexpr\ndef f():\n    return %d\n" % n),
        ("E/chained_compare", HDR + "x = d0.Setting\nif 1 < x < %d:\n    db.Setting = 1\n" % (n + 5)),
        ("E/ifexp", HDR + "x = d0.Setting\ndb.Setting = 1 if x else %d\n" % n),
        ("E/for_range_args", HDR + "for i in range(1, 10, %d):\n    db.Setting = i\n" % (n + 1)),
        ("E/for_list", HDR + "for i in [1, 2, %d]:\n    db.Setting = i\n" % n),
        ("E/while_else", HDR + "x = d0.Setting\nwhile x:\n    x -= 1\nelse:\n    db.Setting = %d\n" % n),
        ("E/import_other", "import os\nimport sys as s\nfrom math import *\n" + HDR + "db.Setting = %d\n" % n),
        ("E/import_relative", "from . import something\nfrom .. import other\n" + HDR + "db.Setting = %d\n" % n),
        ("E/star_args", HDR + "def f(*a, **k):\n    return %d\ndb.Setting = f(1, x=2)\n" % n),
        ("E/default_args", HDR + "def f(a, b=%d):\n    return a + b\ndb.Setting = f(1)\n" % n),
        ("E/kw_call", HDR + "def f(a, b):\n    return a - b\ndb.Setting = f(b=1, a=%d)\n" % n),
        ("E/tuple_assign", HDR + "a, b = 1, %d\ndb.Setting = a + b\n" % n),
        ("E/aug_attr", HDR + "db.Setting += %d\n" % n),
        ("E/not_in", HDR + "x = d0.Setting\nif x not in [1, %d]:\n    db.Setting = 1\n" % n),
        ("E/is_none", HDR + "x = None\nif x is None:\n    db.Setting = %d\n" % n),
        ("E/string_only", "\"\"\"docstring %d\"\"\"\n" % n),
        ("E/ellipsis", HDR + "def f():\n    ...\nf()\ndb.Setting = %d\n" % n),
        ("E/pass_only", "pass\n"),
        ("E/yield_real", HDR + "def f():\n    yield %d\nf()\n" % n),
        ("E/call_on_device", HDR + "db(%d)\n" % n),
        ("E/attr_chain", HDR + "db.Setting.Foo.Bar = %d\n" % n),
        ("E/assign_to_call", HDR + "def f():\n    return 1\nx = f\ndb.Setting = x()\n"),
        ("E/deep_parens", HDR + "db.Setting = " + "(" * 150 + "%d" % n + ")" * 150 + "\n"),
        ("E/very_long_line", HDR + "db.Setting = %d # " % n + "x" * 5000 + "\n"),
        ("E/many_lines", HDR + "".join("d%d.Setting = %d\n" % (i % 6, i) for i in range(400)) + "db.Setting = %d\n" % n),
    ]


def family_OE(n):
    """a directive line on top of sources that fail in different ways (directive handling runs before the compiler's
    own error handling is set up)"""
    want = ("E/syntax", "E/syntax_unclosed", "E/syntax_indent", "E/syntax_tab", "E/break_toplevel", "E/recursion_direct",
            "E/nul_byte", "E/crlf", "E/cr_only", "E/form_feed", "E/surrogate", "E/bom", "E/lua", "E/empty", "E/only_ws",
            "E/deep_parens", "E/unicode_ident", "E/string_only")
    out = []
    extra = [("dedent", HDR + "def f():\n        x = %d\n    db.Setting = x\nf()\n" % n),
             ("tab_space", HDR + "if True:\n        x = 1\n\ty = %d\n" % n),
             ("unterminated_str", HDR + "s = \"abc %d\n" % n),
             ("unterminated_triple", HDR + "s = \"\"\"abc %d\n" % n),
             ("backslash_eof", HDR + "x = %d + \\" % n)]
    for ident, src in family_E(n):
        if ident in want:
            extra.append((ident[2:], src))
    for name, src in extra:
        for dname, d in (("compact", "# pytrapic: compact\n"), ("multi", "# pytrapic: no-inline-functions, remove-labels\n")):
            out.append(("O/%s+%s" % (dname, name), d + src))
        out.append(("O/end+%s" % name, src + "\n# pytrapic: compact\n"))
    return out


def family_E_modules(n):
    main = HDR + "from library import gone\ngone.init()\ndb.Setting = %d\n" % n
    badlib = HDR + "def init(:\n    pass\n"
    return [
        ("E/missing_library", {"": main}),
        ("E/library_syntax_error", {"bad": badlib, "": HDR + "from library import bad\nbad.init()\ndb.Setting = %d\n" % n}),
        ("E/library_error_far_line", {"lib": HDR + "\n" * 40 + "def init():\n    return nothing_defined_%d\n" % n,
                                       "": HDR + "from library import lib\ndb.Setting = lib.init()\n"}),
        # user mistakes that sit in a library, on a line number beyond the end of the (short) main module
        ("E/library_class_far", {"lib": HDR + "\n" * 30 + "def init():\n    db.Setting = %d\n\nclass A:\n    x = 1\n" % n, "": HDR + "from library import lib\nlib.init()\n"}),
        ("E/library_return_far", {"lib": HDR + "\n" * 25 + "def init():\n    db.Setting = %d\n\nreturn 5\n" % n, "": HDR + "from library import lib\nlib.init()\n"}),
        ("E/library_decorator_far", {"lib": HDR + "\n" * 20 + "def init():\n    db.Setting = %d\n\n@staticmethod\ndef other():\n    pass\n" % n, "": HDR + "from library import lib\nlib.init()\nlib.other()\n"}),
        ("E/library_bad_attr_far", {"lib": HDR + "\n" * 35 + "def init():\n    db.NoSuchLogicTypeAtAll = %d\n" % n, "": HDR + "from library import lib\nlib.init()\n"}),
        ("E/library_reassign_far", {"lib": HDR + "\n" * 22 + "def init():\n    p = SolarPanel(d1)\n    p = SolarPanel(d2)\n    p.Horizontal = %d\n" % n, "": HDR + "from library import lib\nlib.init()\n"}),
        ("E/library_undefined_call_far", {"lib": HDR + "\n" * 28 + "def init():\n    db.Setting = nofunc(%d)\n" % n, "": HDR + "from library import lib\nlib.init()\n"}),
        ("E/library_break_far", {"lib": HDR + "\n" * 18 + "def init():\n    db.Setting = %d\n\nbreak\n" % n, "": HDR + "from library import lib\nlib.init()\n"}),
        ("E/library_lone_surrogate", {"lib": HDR + "def init():\n    db.Setting = %d  # \ud800\n" % n, "": HDR + "from library import lib\nlib.init()\n"}),
        ("E/library_unused", {"lib": HDR + "def init():\n    db.Setting = %d\n" % n, "": HDR + "db.Setting = 1\n"}),
        ("E/library_named_main", {"__main__": HDR + "x = %d\n" % n, "": HDR + "db.Setting = 2\n"}),
        ("E/library_weird_name", {"a b-c": HDR + "x = 1\n", "": HDR + "db.Setting = %d\n" % n}),
    ]


def _entries(pairs, family):
    out = []
    for ident, src in pairs:
        if isinstance(src, str):
            src = {"": src}
        out.append({"id": ident, "family": family, "src": src, "constexpr": any("@constexpr" in v for v in src.values())})
    return out


def build(repo_root, n_values=(0, 1)):
    """all corpus entries (deterministic order)"""
    entries = repo_programs(repo_root)
    for n in n_values:
        suffix = "" if n == 0 else "#%d" % n
        for fam, fn in (("M", family_M), ("K", family_K), ("K", family_K_lib), ("O", family_O), ("O", family_OE), ("D", family_D),
                        ("L", family_L), ("E", family_E), ("E", family_E_modules)):
            for e in _entries(fn(n), fam):
                e["id"] += suffix
                e["n"] = n
                entries.append(e)
    seen = set()
    out = []
    for e in entries:
        if e["id"] in seen:
            continue
        seen.add(e["id"])
        out.append(e)
    return out


# --- J: daemon non-requests -----------------------------------------------------------------------
def b64(s):
    if isinstance(s, str):
        s = s.encode("utf-8", "surrogatepass")
    return base64.b64encode(s).decode("ascii")


def request_line(src, options=None, extra=None, action="compile"):
    msg = {"action": action, "code": src, "options": options if options is not None else {}}
    if extra:
        msg.update(extra)
    return b64(json.dumps(msg))


def family_J(n):
    ok_src = {"": HDR + "db.Setting = %d\n" % n}
    return [
        ("J/invalid_base64", "!!!! not base64 %d ####" % n),
        ("J/base64_bad_padding", "QUJD" + "A" * (1 + n % 2)),
        ("J/base64_of_invalid_utf8", base64.b64encode(b"\xff\xfe{\"action\"" + bytes([0x80 + n])).decode()),
        ("J/invalid_json", b64("{\"action\": \"compile\", %d" % n)),
        ("J/json_list", b64("[1, 2, %d]" % n)),
        ("J/json_number", b64("%d" % n)),
        ("J/json_string", b64("\"compile %d\"" % n)),
        ("J/json_null", b64("null")),
        ("J/json_true", b64("true")),
        ("J/json_nan", b64("NaN")),
        ("J/json_empty_obj", b64("{}")),
        ("J/no_action", b64(json.dumps({"code": ok_src, "options": {}}))),
        ("J/unknown_action", request_line(ok_src, action="format%d" % n)),
        ("J/action_null", b64(json.dumps({"action": None, "code": ok_src}))),
        ("J/action_list", b64(json.dumps({"action": ["compile"], "code": ok_src}))),
        ("J/no_code", b64(json.dumps({"action": "compile", "options": {}}))),
        ("J/code_null", b64(json.dumps({"action": "compile", "code": None}))),
        ("J/code_string", b64(json.dumps({"action": "compile", "code": HDR + "db.Setting = %d\n" % n}))),
        ("J/code_number", b64(json.dumps({"action": "compile", "code": n}))),
        ("J/code_list", b64(json.dumps({"action": "compile", "code": [HDR]}))),
        ("J/code_empty_dict", b64(json.dumps({"action": "compile", "code": {}}))),
        ("J/code_no_main", b64(json.dumps({"action": "compile", "code": {"lib": HDR}}))),
        ("J/code_value_number", b64(json.dumps({"action": "compile", "code": {"": n}}))),
        ("J/code_value_null", b64(json.dumps({"action": "compile", "code": {"": None}}))),
        ("J/unknown_option", request_line(ok_src, {"no_such_option": True})),
        ("J/options_null", b64(json.dumps({"action": "compile", "code": ok_src, "options": None}))),
        ("J/options_list", b64(json.dumps({"action": "compile", "code": ok_src, "options": [1]}))),
        ("J/options_string", b64(json.dumps({"action": "compile", "code": ok_src, "options": "compact"}))),
        ("J/options_missing", b64(json.dumps({"action": "compile", "code": ok_src}))),
        ("J/option_wrong_type", request_line(ok_src, {"compact": "yes", "inline_functions": 0, "remove_labels": None})),
        ("J/extra_fields", request_line(ok_src, {}, {"lineno": 3, "column": n, "junk": {"a": [1, 2]}})),
        ("J/huge_line", "A" * (200000 + n)),
        ("J/huge_valid", request_line({"": HDR + "# " + "y" * 150000 + "\ndb.Setting = %d\n" % n})),
        ("J/exit_lower", "exit"),
        ("J/exit_in_b64", b64("EXIT")),
        ("J/plain_text", "compile this please %d" % n),
        ("J/json_plain", json.dumps({"action": "compile", "code": ok_src})),
        ("J/base64_urlsafe", base64.urlsafe_b64encode(json.dumps({"action": "compile", "code": {"": HDR + "db.Setting = \"???>>>\"\n"}}).encode()).decode()),
        ("J/nonascii_text", "\u00e9\u00e8 \u2603 %d" % n),
        ("J/lone_surrogate_bytes", {"hex": ("ff fe 80 %02x" % (0x30 + n % 10)).replace(" ", "")}),
        ("J/nul", "AAA\x00BBB%d" % n),
        ("J/tab_inside", "QUJD\tQUJD"),
        ("J/surrounded_ws", "  " + request_line(ok_src) + "  "),
        ("J/deep_json", b64("[" * 3000 + "]" * 3000)),
        ("J/big_number_json", b64("{\"action\": \"compile\", \"code\": {\"\": \"x=1\"}, \"options\": {\"compact\": 1e999}}")),
        ("J/action_lone_surrogate", b64("{\"action\": \"fmt\\ud83d%d\", \"code\": {\"\": \"x=1\"}}" % n)),
        ("J/option_lone_surrogate", b64("{\"action\": \"compile\", \"code\": {\"\": \"x=1\"}, \"options\": {\"opt\\udc00%d\": true}}" % n)),
        ("J/code_lone_surrogate", b64("{\"action\": \"compile\", \"code\": {\"\": \"from stationeers_pytrapic.symbols import *\\ndb.Setting = nothing\\ud800here%d\\n\"}, \"options\": {}}" % n)),
        ("J/module_name_lone_surrogate", b64("{\"action\": \"compile\", \"code\": {\"\": \"from stationeers_pytrapic.symbols import *\\nfrom library import zz\\nzz.f()\\n\", \"l\\udfff%d\": \"x = = 1\"}, \"options\": {}}" % n)),
        # non-empty lines whose base64 payload is empty or blank (b64decode drops characters outside the alphabet)
        ("J/b64_only_punctuation", "!!!!"),
        ("J/b64_only_padding", "===="),
        ("J/b64_of_space", "IA=="),
        ("J/b64_of_newline", "Cg=="),
        ("J/b64_of_spaces", "ICAg"),
        ("J/b64_of_tab_newline", "CQo="),
        ("J/b64_of_empty_object_ws", b64("  {}  \n")),
        # action names a daemon might grow one day (each must still get exactly one reply line)
        ("J/action_ping", request_line(ok_src, action="ping")),
        ("J/action_version", request_line(ok_src, action="version")),
        ("J/action_format", request_line(ok_src, action="format")),
        ("J/action_exit", request_line(ok_src, action="exit")),
        ("J/action_EXIT", request_line(ok_src, action="EXIT")),
        ("J/action_shutdown", request_line(ok_src, action="shutdown")),
        ("J/action_reset", request_line(ok_src, action="reset")),
        ("J/action_clear_cache", request_line(ok_src, action="clear_cache")),
        ("J/action_compile_upper", request_line(ok_src, action="Compile")),
        ("J/action_stationpedia", request_line(ok_src, action="stationpedia")),
        ("J/action_hover", request_line(ok_src, {}, {"lineno": 1, "column": 3}, action="hover")),
        ("J/action_complete", request_line(ok_src, {}, {"lineno": 1, "column": 3}, action="complete")),
        ("J/action_empty", request_line(ok_src, action="")),
        ("J/dup_keys", b64("{\"action\": \"nope\", \"action\": \"compile\", \"code\": {\"\": \"" + "db.Setting = %d" % n + "\"}}")),
    ]
