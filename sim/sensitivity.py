"""./check sensitivity [name ...] - does a broken tree get caught?

Every mutant is a change to the repository that keeps its test suite green and breaks one claimed property.  Each
is applied to a scratch copy of /repo's working tree (mkdtemp outside /repo and /verif, removed afterwards), and the
REGISTERED check of that property is run against the copy exactly as MANIFEST.json registers it
(`./check <id> --tier quick`, conformance off, evidence and replays redirected to the scratch directory).
Caught = the check exits 1 with a VIOLATION line.  Nothing here touches /repo or /verif/evidence.

Mutant sources: the built-in list below (DESIGN 2.11) and /verif/seeded/<id>/patch.diff (changes written by
independent sub-agents that were given only the property text; meta.json names the property)."""
import glob
import json
import os
import re
import shutil
import subprocess
import sys
import tempfile
import time

VERIF = os.path.dirname(os.path.dirname(os.path.abspath(__file__)))
REPO = os.environ.get("PYTRAPIC_REPO", "/repo")
PKG = "src/stationeers_pytrapic/"

# (name, property, file, old text, new text)
BUILTIN = [
    ("c10-wait-without-timeout", "C10", PKG + "utils.py", "stdout, stderr = process.communicate(timeout=1)", "stdout, stderr = process.communicate()"),
    ("c10-timeout-100s", "C10", PKG + "utils.py", "stdout, stderr = process.communicate(timeout=1)", "stdout, stderr = process.communicate(timeout=100)"),
    ("c10-narrow-except", "C10", PKG + "compiler.py", "        except Exception as e:\n            if self._raise_exceptions:\n                raise e\n            import traceback",
     "        except (ValueError, TypeError, KeyError, AttributeError, AssertionError) as e:\n            if self._raise_exceptions:\n                raise e\n            import traceback"),
    ("c11-cache-key-call-text", "C11", PKG + "utils.py", "_eval_constexpr_cache[code]", "_eval_constexpr_cache[call_node.as_string()]", "all",
     ("    if code in _eval_constexpr_cache:", "    if call_node.as_string() in _eval_constexpr_cache:")),
    ("c14-no-flush", "C14", PKG + "mod_daemon.py", "print(encoded, flush=True, file=_stdout)", "print(encoded, file=_stdout)"),
    ("c14-print-to-sys-stdout", "C14", PKG + "mod_daemon.py", "print(encoded, flush=True, file=_stdout)", "print(encoded, flush=True)"),
    ("c14-answer-empty-lines", "C14", PKG + "mod_daemon.py", "    if not line:\n        return\n\n    response = None", "    response = None"),
    ("c14-unknown-action-silent", "C14", PKG + "mod_daemon.py", "            response = {\"error\": f\"Invalid action '{action}'\"}\n            return", "            return"),
    ("c14-exit-on-bad-json", "C14", PKG + "mod_daemon.py", "    except json.JSONDecodeError:\n        response = {\"error\": {\"message\": \"Invalid JSON format\"}}",
     "    except json.JSONDecodeError:\n        response = {\"error\": {\"message\": \"Invalid JSON format\"}}\n        raise"),
    ("c14-no-stdout-redirect", "C14", PKG + "mod_daemon.py", "_stdout = sys.stdout\nsys.stdout = sys.stderr\n", "_stdout = sys.stdout\n"),
    ("c10-no-kill-after-timeout", "C10", PKG + "utils.py", "        _stop_constexpr_helper(process)\n        raise CompilerError(\n            f\"Timeout", "        raise CompilerError(\n            f\"Timeout"),
    ("c10-kill-without-bounded-wait", "C10", PKG + "utils.py", "    try:\n        process.communicate(timeout=1)\n    except subprocess.TimeoutExpired:", "    try:\n        process.communicate()\n    except subprocess.TimeoutExpired:"),
    ("c14-helper-inherits-stdin", "C14", PKG + "utils.py", "        stdin=subprocess.DEVNULL,\n", ""),
    ("c14-traceback-to-stderr", "C14", PKG + "mod_daemon.py", "        stack_trace = traceback.format_exc()\n        response = {",
     "        stack_trace = traceback.format_exc()\n        print(stack_trace * 3, file=sys.stderr)\n        response = {"),
]
# reverts of the repairs recorded in known_findings.json: (name, property, commit)
REVERTS = [
    ("c11-revert-options-copy", "C11", "d0c576c"),
    ("c10-revert-pragma-field-filter", "C10", "43974a1"),
    ("c10-revert-num-bytes", "C10", "6839fa3"),
    ("c11-revert-hashseed-independent-registers", "C11", "5060ae4"),
]


# Changes under which the property still HOLDS (other ways of writing the same daemon loop / the same helper invocation):
# every check named here must stay quiet on them.  /verif/legit/<name>/patch.diff
LEGIT = {
    "iterate-stdin": ["C14"], "bytes-readline": ["C14"], "os-read-blocks": ["C14"], "asyncio-streamreader": ["C14"],
    "worker-thread-queue": ["C14"], "executor-awaited": ["C14"], "sigalrm-watchdog": ["C14"],
    "helper-subprocess-run": ["C10", "C11", "C14"], "helper-timeout-5s": ["C10", "C11", "C14"], "helper-poll-loop": ["C10", "C11", "C14"],
}


def log(*a):
    print(*a, flush=True)


def scratch_copy():
    d = tempfile.mkdtemp(prefix="pytrapic-mut-")
    for sub in ("src", "test"):
        shutil.copytree(os.path.join(REPO, sub), os.path.join(d, sub), ignore=shutil.ignore_patterns("__pycache__", "*.pyc"))
    return d


def mutants():
    out = []
    for name, prop, f, old, new, *rest in BUILTIN:
        out.append({"name": name, "property": prop, "kind": "replace", "file": f, "old": old, "new": new, "all": bool(rest),
                    "more": [r for r in rest if isinstance(r, tuple)]})
    for name, prop, commit in REVERTS:
        out.append({"name": name, "property": prop, "kind": "revert", "commit": commit})
    for meta in sorted(glob.glob(os.path.join(VERIF, "seeded", "*", "meta.json"))):
        d = os.path.dirname(meta)
        with open(meta) as f:
            m = json.load(f)
        out.append({"name": "seeded/" + os.path.basename(d), "property": m["property"], "kind": "patch", "patch": os.path.join(d, "patch.diff")})
    for pth in sorted(glob.glob(os.path.join(VERIF, "legit", "*", "patch.diff"))):
        name = os.path.basename(os.path.dirname(pth))
        props = LEGIT.get(name)
        if props is None:  # rewrites written by sub-agents: the daemon only -> C14, anything else -> all three
            with open(pth) as f:
                txt = f.read()
            touched = set(re.findall(r"^\+\+\+ b/(\S+)", txt, re.M))
            props = ["C14"] if touched <= {PKG + "mod_daemon.py"} else ["C10", "C11", "C14"]
        for prop in props:
            out.append({"name": "legit/%s@%s" % (name, prop), "property": prop, "kind": "patch", "patch": pth, "expect": "quiet"})
    return out


def apply(m, d):
    if m["kind"] == "replace":
        p = os.path.join(d, m["file"])
        with open(p) as f:
            s = f.read()
        if s.count(m["old"]) != 1 and not (m.get("all") and s.count(m["old"]) > 1):
            return "anchor text occurs %d times in %s" % (s.count(m["old"]), m["file"])
        s = s.replace(m["old"], m["new"])
        for old, new in m.get("more") or []:
            if s.count(old) != 1:
                return "anchor text occurs %d times in %s" % (s.count(old), m["file"])
            s = s.replace(old, new)
        with open(p, "w") as f:
            f.write(s)
        return None
    if m["kind"] == "revert":
        patch = subprocess.run(["git", "-C", REPO, "show", "--format=", m["commit"], "--", "src"], capture_output=True)
        if patch.returncode != 0 or not patch.stdout:
            return "cannot read commit %s" % m["commit"]
        r = subprocess.run(["git", "apply", "-R", "-p1", "--whitespace=nowarn", "-"], input=patch.stdout, cwd=d, capture_output=True)
        return None if r.returncode == 0 else "revert does not apply: %s" % r.stderr.decode()[-300:]
    r = subprocess.run(["git", "apply", "-p1", "--whitespace=nowarn", m["patch"]], cwd=d, capture_output=True)
    return None if r.returncode == 0 else "patch does not apply: %s" % r.stderr.decode()[-300:]


def tests_pass(d):
    """the repository's own suite against the scratch copy (timing-sensitive constexpr tests retried once)"""
    env = dict(os.environ, PYTHONPATH=os.path.join(d, "src"), PYTHONDONTWRITEBYTECODE="1")
    vsrc = os.path.join(REPO, "src", "stationeers_pytrapic", "_version.py")
    if os.path.exists(vsrc):
        shutil.copy(vsrc, os.path.join(d, "src", "stationeers_pytrapic", "_version.py"))
    for attempt in range(3):
        r = subprocess.run(["/venv/bin/python", "-m", "pytest", "-q", "-p", "no:cacheprovider", "--timeout=900", "-x", "test"],
                           cwd=d, env=env, capture_output=True, text=True)
        if r.returncode == 0:
            return True, ""
    return False, r.stdout[-500:]


def run_one(m, tier, with_tests):
    d = scratch_copy()
    t0 = time.monotonic()
    rec = {"name": m["name"], "property": m["property"]}
    try:
        why = apply(m, d)
        if why:
            rec.update(status="not-applicable", detail=why)
            return rec
        if with_tests:
            ok, tail = tests_pass(d)
            rec["tests_pass"] = ok
            if not ok:
                rec.update(status="tests-fail", detail=tail)
                return rec
        env = dict(os.environ, PYTRAPIC_REPO=d, PYTRAPIC_REPO_SRC=os.path.join(d, "src"), VERIF_CONFORMANCE="0",
                   VERIF_EARLY_STOP="0" if m.get("expect") == "quiet" else "1",
                   VERIF_EVIDENCE_DIR=os.path.join(d, "evidence"), VERIF_REPLAY_DIR=os.path.join(d, "replays"))
        r = subprocess.run([os.path.join(VERIF, "check"), m["property"], "--tier", tier], env=env, capture_output=True, text=True)
        out = r.stdout
        classes = re.findall(r"^    class=(\S+) occurrences=(\d+)  (.*)$", out, re.M)
        rec.update(exit=r.returncode, caught=(r.returncode == 1 and "VIOLATION property=%s" % m["property"] in out),
                   classes=sorted(set(c for c, _, _ in classes)), first=(classes[0][2][:200] if classes else ""),
                   wall_s=round(time.monotonic() - t0, 1))
        if m.get("expect") == "quiet":
            rec["status"] = "quiet-ok" if r.returncode == 0 else ("harness-error" if r.returncode == 2 else "FALSE-ALARM")
        else:
            rec["status"] = "caught" if rec["caught"] else ("harness-error" if r.returncode == 2 else "MISSED")
        if rec["status"] not in ("caught", "quiet-ok"):
            rec["tail"] = out[-900:]
        return rec
    finally:
        shutil.rmtree(d, ignore_errors=True)


def tests_only(ms):
    """run only the repository's suite against every mutant (on an otherwise idle machine: three of its tests depend on
    a real 1 s timeout); the outcome is recorded in out/sensitivity_tests.json"""
    res = {}
    for m in ms:
        d = scratch_copy()
        try:
            why = apply(m, d)
            if why:
                res[m["name"]] = {"applies": False, "detail": why}
            else:
                ok, tail = tests_pass(d)
                res[m["name"]] = {"applies": True, "tests_pass": ok, "detail": tail[-200:]}
        finally:
            shutil.rmtree(d, ignore_errors=True)
        log("  %-48s %s" % (m["name"], res[m["name"]]))
    os.makedirs(os.path.join(VERIF, "sensitivity"), exist_ok=True)
    with open(os.path.join(VERIF, "sensitivity", "tests.json"), "w") as f:
        json.dump(res, f, indent=1)
    return 0


def main(names, tier):
    with_tests = os.environ.get("VERIF_SENS_TESTS", "0") == "1"
    ms = mutants()
    if names:
        ms = [m for m in ms if any(n in m["name"] for n in names)]
    if os.environ.get("VERIF_SENS_TESTS") == "only":
        return tests_only(ms)
    log("sensitivity: %d mutants, tier=%s, repository tests %s" % (len(ms), tier, "on" if with_tests else "off"))
    results = []
    for m in ms:
        rec = run_one(m, tier, with_tests)
        results.append(rec)
        log("  %-48s %s %-14s %s %s" % (rec["name"], rec["property"], rec["status"], ",".join(rec.get("classes", [])), rec.get("detail", "")[:160]))
    outdir = os.path.join(VERIF, "sensitivity")
    os.makedirs(outdir, exist_ok=True)
    name = "results.json" if not names else "results-partial.json"
    with open(os.path.join(outdir, name), "w") as f:
        json.dump(results, f, indent=1)
    n_c = sum(1 for r in results if r["status"] == "caught")
    log("sensitivity: %d caught, %d MISSED; legitimate rewrites: %d quiet, %d FALSE-ALARM; %d other" % (
        n_c, sum(1 for r in results if r["status"] == "MISSED"), sum(1 for r in results if r["status"] == "quiet-ok"),
        sum(1 for r in results if r["status"] == "FALSE-ALARM"),
        sum(1 for r in results if r["status"] not in ("caught", "MISSED", "quiet-ok", "FALSE-ALARM"))))
    return 0
