"""Parallel execution of run specs on zygote interpreters (one zygote per worker thread, chosen by
the spec's hash seed), a reference store, and a small on-demand runner for minimisation/replay.

Threads here only move JSON between the orchestrator and zygote processes; no verdict depends on
their scheduling (a run's record is a function of its spec and the tree)."""
import json
import math
import os
import queue
import threading
import time

from . import oracle
from .zpool import Zygote

# more workers only add CPU use in this sandbox (fork-bound, see main.TIERS); 3 keeps orchestration overlapped
WORKERS = int(os.environ.get("VERIF_WORKERS", "0")) or min(3, os.cpu_count() or 3)


class Farm:
    def __init__(self, workers=None, repo_src=None):
        self.workers = workers or WORKERS
        self.repo_src = repo_src
        self.zygote_boots = 0
        self.stop = False
        self.boot_infos = []
        self.lock = threading.Lock()

    def run_all(self, specs, on_result=None, deadline=None):
        """-> list of results aligned with specs (None where the deadline cut the batch short)"""
        n = len(specs)
        results = [None] * n
        if n == 0:
            return results
        by_seed = {}
        for i, s in enumerate(specs):
            by_seed.setdefault(int(s.get("hash_seed", 0)), []).append(i)
        chunk = max(12, math.ceil(n / (self.workers * 3)))
        q = queue.Queue()
        for seed in sorted(by_seed):
            idxs = by_seed[seed]
            for a in range(0, len(idxs), chunk):
                q.put((seed, idxs[a:a + chunk]))
        errors = []

        def worker():
            z = None
            try:
                while True:
                    try:
                        seed, idxs = q.get_nowait()
                    except queue.Empty:
                        break
                    if self.stop or (deadline is not None and time.monotonic() > deadline):
                        continue
                    if z is None or z.hashseed != seed:
                        if z is not None:
                            z.close()
                        z = Zygote(seed, self.repo_src)
                        info = z.wait_ready()
                        with self.lock:
                            self.zygote_boots += 1
                            self.boot_infos.append(info)
                    for i in idxs:
                        if self.stop or (deadline is not None and time.monotonic() > deadline):
                            break
                        r = z.run(specs[i])
                        results[i] = r
                        if on_result is not None:
                            on_result(i, r)
            except BaseException as e:  # noqa
                errors.append(repr(e))
            finally:
                if z is not None:
                    z.close()

        nthreads = min(self.workers, q.qsize())
        threads = [threading.Thread(target=worker, daemon=True) for _ in range(nthreads)]
        for t in threads:
            t.start()
        for t in threads:
            t.join()
        if errors:
            raise RuntimeError("farm worker failed: %s" % errors[:3])
        return results


class OneShot:
    """runs single specs on demand (minimisation, replay); keeps a few zygotes alive"""

    def __init__(self, repo_src=None, cap=3):
        self.repo_src = repo_src
        self.cap = cap
        self.z = {}
        self.order = []

    def run(self, spec):
        seed = int(spec.get("hash_seed", 0))
        z = self.z.get(seed)
        if z is None:
            if len(self.z) >= self.cap:
                old = self.order.pop(0)
                self.z.pop(old).close()
            z = Zygote(seed, self.repo_src)
            z.wait_ready()
            self.z[seed] = z
            self.order.append(seed)
        return z.run(spec)

    def fresh(self, seed):
        """a new zygote instance for `seed` (different process, different ASLR) - used once per replay check"""
        z = Zygote(seed, self.repo_src)
        z.wait_ready()
        return z

    def close(self):
        for z in self.z.values():
            z.close()
        self.z.clear()
        self.order = []


# --- references ---------------------------------------------------------------------------------
def api_ref_request(op, shared_options=None):
    style = op.get("opt_style", "obj")
    values = op.get("options") or {}
    if style == "shared":
        style, values = "obj", dict(shared_options or {})
    sstyle = op.get("src_style", "dict")
    if sstyle == "shared":
        sstyle = "dict"
    return {"src": op["src"], "options": values, "opt_style": style, "src_style": sstyle}


def api_ref_key(req):
    return "api:" + oracle.digest([list(req["src"].items()) if isinstance(req["src"], dict) else req["src"],
                                    sorted((req["options"] or {}).items(), key=lambda kv: kv[0]),
                                    req["opt_style"], req["src_style"]])


def api_ref_spec(req):
    return {"property": "ref", "kind": "api", "hash_seed": 0, "knobs": {"step_clock": False},
            "ops": [dict(req)]}


def daemon_ref_key(raw, stdin_errors):
    return "daemon:" + oracle.digest([raw, stdin_errors])


def daemon_ref_spec(raw, stdin_errors):
    return {"property": "ref", "kind": "daemon", "hash_seed": 0, "knobs": {"step_clock": False},
            "session": {"lines": [{"raw": raw}], "client": {"mode": "lockstep"}, "chunking": {"mode": "whole"},
                        "end": "exit", "stdin_errors": stdin_errors}}


class RefStore:
    """ref(request) = what compiling exactly that request gives first thing in a pristine process at
    hash seed 0 with a fault-free helper.  Cached by request digest for the life of the orchestrator."""

    def __init__(self, farm, oneshot, disk=None):
        self.farm = farm
        self.oneshot = oneshot
        self.cache = {}
        self.specs = {}
        self.computed = 0
        self.from_disk = 0
        self.errors = []
        # optional on-disk memo, one file per (repository tree digest, harness digest): a reference is a function of
        # the request, the tree and the harness only, so a second run on the same tree need not fork for it again
        self.disk_path = disk
        self.disk = {}
        self.disk_new = {}
        if disk and os.path.exists(disk):
            try:
                with open(disk) as f:
                    self.disk = json.load(f)
            except (OSError, ValueError):
                self.disk = {}

    def _from_disk(self, k, s):
        v = self.disk.get(k)
        if v is None:
            return False
        self.cache[k] = v
        self.specs[k] = s
        self.from_disk += 1
        return True

    def save(self):
        if not self.disk_path or not self.disk_new:
            return
        try:
            os.makedirs(os.path.dirname(self.disk_path), exist_ok=True)
            merged = dict(self.disk)
            merged.update(self.disk_new)
            tmp = self.disk_path + ".%d.tmp" % os.getpid()
            with open(tmp, "w") as f:
                json.dump(merged, f)
            os.replace(tmp, self.disk_path)
        except OSError:
            pass

    @staticmethod
    def _extract(spec, res):
        if res is None or res.get("harness_error"):
            return {"__ref_error__": (res or {}).get("harness_error", "no result")}
        if spec["kind"] == "api":
            ops = res.get("ops") or []
            if not ops or "result" not in ops[0]:
                return {"__ref_error__": "reference run produced no result: %r" % (ops[:1],)}
            return {"result": ops[0]["result"], "helpers": ops[0].get("helpers", 0), "checks": ops[0].get("checks", [])}
        return {"replies": res.get("replies"), "violation": res.get("violation"), "end": res.get("end")}

    def ensure(self, wanted, deadline=None):
        """wanted: dict key -> ref spec; computes the missing ones in parallel (in the given order, until `deadline`)"""
        missing = [(k, s) for k, s in wanted.items() if k not in self.cache and not self._from_disk(k, s)]
        if not missing:
            return
        results = self.farm.run_all([s for _, s in missing], deadline=deadline)
        for (k, s), r in zip(missing, results):
            if r is None:
                continue  # cut off by the deadline
            self.cache[k] = self._extract(s, r)
            self.specs[k] = s
            self.computed += 1
            if "__ref_error__" not in self.cache[k]:
                self.disk_new[k] = self.cache[k]

    def get(self, key, spec):
        if key not in self.cache and not self._from_disk(key, spec):
            self.cache[key] = self._extract(spec, self.oneshot.run(spec))
            self.specs[key] = spec
            self.computed += 1
            if "__ref_error__" not in self.cache[key]:
                self.disk_new[key] = self.cache[key]
        return self.cache[key]
