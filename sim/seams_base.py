"""Simulator signals and constants shared by the seams and the scheduler."""

INF = float("inf")


# ---------------------------------------------------------------------------------------------
# signals raised *through* the SUT; BaseException so that `except Exception` cannot swallow them
class SimSignal(BaseException):
    cls = "sim-signal"


class SimHang(SimSignal):
    """the SUT issued a blocking operation that can never complete"""
    cls = "hang"


class StepBudget(SimSignal):
    """the SUT used more bytecode steps / CPU than any terminating compile plausibly needs"""
    cls = "hang"


class SimDeadlock(SimSignal):
    """daemon blocks for input while the client blocks for a reply"""
    cls = "unanswered"


class SimStop(SimSignal):
    """the scheduler ends the run (nothing more can happen)"""
    cls = "stop"


class Unmodelled(SimSignal):
    """the SUT used a seam the simulator does not model: HARNESS-ERROR, never a violation"""
    cls = "harness"


