"""Simulator signals and constants shared by the seams and the scheduler."""

INF = float("inf")


# ---------------------------------------------------------------------------------------------
# signals raised *through* the SUT; BaseException so that `except Exception` cannot swallow them
class SimSignal(BaseException):
    cls = "sim-signal"


class SimHang(SimSignal):
    """the SUT issued a blocking operation that can never complete"""
    cls = "hang"


class StepBudget(SimSignal):
    """the SUT used more bytecode steps / CPU than any terminating compile plausibly needs"""
    cls = "hang"


class SimDeadlock(SimSignal):
    """daemon blocks for input while the client blocks for a reply"""
    cls = "unanswered"


class SimStop(SimSignal):
    """the scheduler ends the run (nothing more can happen)"""
    cls = "stop"


class Unmodelled(SimSignal):
    """the SUT used a seam the simulator does not model: HARNESS-ERROR, never a violation"""
    cls = "harness"




class StdStreamProxy:
    """What `sys.stdout` is while the zygote imports the repository's package.  Anything in the package that binds the
    standard output at import time (a logging handler, a default argument, `_out = sys.stdout`) gets this object; in a run
    fork it forwards to whatever stands for the process's *real* standard output there - the simulated reply pipe of a
    daemon run - exactly as such a binding would in a real process, where the package is imported before mod_daemon
    swaps sys.stdout for sys.stderr."""

    def __init__(self):
        self.target = None

    def _t(self):
        import sys
        return self.target if self.target is not None else sys.__stderr__

    def write(self, s):
        return self._t().write(s)

    def writelines(self, lines):
        for ln in lines:
            self.write(ln)

    def flush(self):
        t = self._t()
        if hasattr(t, "flush"):
            t.flush()

    def __getattr__(self, name):
        return getattr(self._t(), name)


STDOUT_PROXY = StdStreamProxy()
