"""./check <C10|C11|C14> [--tier quick|thorough] [--replay FILE] | selftest | setup

Exit status: 0 = the property held on everything explored (KNOWN-FINDING lines possible),
1 = at least one violation not listed in known_findings.json (a line `VIOLATION property=<id>
replay=<path>` per distinct violation), 2 = harness error (including any wall-clock guard)."""
import argparse
import glob
import hashlib
import json
import os
import re
import sys
import time
from collections import Counter

VERIF = os.path.dirname(os.path.dirname(os.path.abspath(__file__)))
REPO = os.environ.get("PYTRAPIC_REPO", "/repo")
REPO_SRC = os.path.join(REPO, "src")
# where a run writes: /verif/evidence and /verif/out/replays, unless redirected (the sensitivity runner points
# checks of deliberately broken scratch trees somewhere else, so that they never overwrite real evidence)
EVIDENCE_DIR = os.environ.get("VERIF_EVIDENCE_DIR") or os.path.join(VERIF, "evidence")
REPLAY_DIR = os.environ.get("VERIF_REPLAY_DIR") or os.path.join(VERIF, "out", "replays")

from . import farm as farm_mod  # noqa: E402
from . import gen, judge, minimise, oracle  # noqa: E402
from .prng import Rng  # noqa: E402

LEVEL = {"C10": "fault_enumeration", "C11": "exploration", "C14": "exploration"}

# Sizes follow the measured throughput of this sandbox: a run is one fork of a ~180 MB primed interpreter and
# fork/exit/page-fault work does not scale across cores here (measured: 120 histories take 38 s with 1, 2, 3, 4
# or 6 workers while CPU use grows linearly), so the batch sizes, not the worker count, set the wall time.
CONFORM = {"quick": {"helper": 6, "api": 6, "daemon": 8}, "thorough": {"helper": None, "api": 80, "daemon": 80}}
TIERS = {
    "quick": {"hash_seeds": 4, "C10": {"random": 120, "sweep_n": (0,), "typing_all": False},
              "C11": {"runs": 120, "soak": 2}, "C14": {"runs": 220, "soak": 2}, "budget_s": 360, "ref_budget_s": 600},
    "thorough": {"hash_seeds": 32, "C10": {"random": 4000, "sweep_n": (0, 1), "typing_all": True},
                 "C11": {"runs": 6000, "soak": 60}, "C14": {"runs": 10000, "soak": 60}, "budget_s": 1500, "ref_budget_s": 3000},
}


def log(*a):
    print(*a, flush=True)


def tree_digest():
    h = hashlib.sha256()
    for p in sorted(glob.glob(os.path.join(REPO_SRC, "stationeers_pytrapic", "*.py"))):
        if p.endswith("_version.py"):
            continue
        h.update(os.path.basename(p).encode())
        with open(p, "rb") as f:
            h.update(f.read())
    return h.hexdigest()[:16]


def harness_digest():
    h = hashlib.sha256()
    for p in sorted(glob.glob(os.path.join(VERIF, "sim", "*.py"))):
        with open(p, "rb") as f:
            h.update(f.read())
    h.update(sys.version.encode())
    return h.hexdigest()[:12]


def hash_seed_list(seed, n):
    r = Rng(seed, "hashseeds")
    out = [0]
    while len(out) < n:
        x = r.between(1, 4294967295) if len(out) % 2 else r.between(1, 200)
        if x not in out:
            out.append(x)
    return out


def load_known():
    p = os.path.join(VERIF, "known_findings.json")
    if not os.path.exists(p):
        return []
    with open(p) as f:
        return json.load(f).get("findings", [])


def match_known(v, known):
    for k in known:
        if k.get("status") != "open":
            continue
        if k.get("property") != v["property"] or k.get("class") != v["class"]:
            continue
        rx = k.get("message_regex")
        if rx and not re.search(rx, v["message"], re.S):
            continue
        return k
    return None


def signature(v):
    msg = re.sub(r"\d+", "N", v["message"])
    msg = re.sub(r"'[^']{0,80}'|\"[^\"]{0,80}\"", "S", msg)
    return "%s|%s" % (v["class"], msg[:70])


# ------------------------------------------------------------------------------------------------
class Check:
    def __init__(self, prop, tier, seed):
        self.prop, self.tier, self.seed = prop, tier, seed
        self.cfg = TIERS[tier]
        self.t0 = time.monotonic()
        self.farm = farm_mod.Farm(repo_src=REPO_SRC)
        self.oneshot = farm_mod.OneShot(repo_src=REPO_SRC)
        disk = None
        if os.environ.get("VERIF_REFCACHE", "1") != "0":
            disk = os.path.join(VERIF, "out", "refcache", "%s-%s.json" % (tree_digest(), harness_digest()))
        self.refs = farm_mod.RefStore(self.farm, self.oneshot, disk=disk)
        self.corp = gen.Corpus(REPO)
        self.hash_seeds = hash_seed_list(seed, self.cfg["hash_seeds"])
        self.deadline = self.t0 + self.cfg["budget_s"] * float(os.environ.get("VERIF_BUDGET_SCALE", "1"))
        self.notes = []

    # -- specs ---------------------------------------------------------------------------------
    def build_specs(self):
        p, c = self.prop, self.cfg[self.prop]
        if p == "C10":
            # how many helper invocations does each constexpr entry make?  (also primes the refs)
            wanted = {}
            reqs = {}
            for e in self.corp.constexpr_entries:
                req = farm_mod.api_ref_request({"src": e["src"], "options": {"append_version": False}})
                reqs[e["id"]] = farm_mod.api_ref_key(req)
                wanted[reqs[e["id"]]] = farm_mod.api_ref_spec(req)
            self.refs.ensure(wanted)
            counts = {eid: self.refs.cache[k].get("helpers", 1) for eid, k in reqs.items()}
            sub = gen.Corpus.__new__(gen.Corpus)
            sub.__dict__.update(self.corp.__dict__)
            sub.constexpr_entries = [e for e in self.corp.constexpr_entries if e.get("n", 0) in c["sweep_n"]]
            self.sweep = gen.c10_sweep_specs(sub, counts, full=(self.tier == "thorough"))
            specs = gen.c10_directed_specs(self.corp, self.hash_seeds) + list(self.sweep)
            if c["typing_all"]:
                specs += gen.c10_typing_all_specs(self.corp)
            specs += [gen.c10_random_spec(self.seed, k, self.corp, self.hash_seeds) for k in range(c["random"])]
            return specs
        if p == "C11":
            return ((gen.c11_many_distinct_specs(self.corp) if self.tier == "thorough" else [])
                    + gen.c11_directed_specs(self.corp, self.hash_seeds)
                    + [gen.c11_spec(self.seed, k, self.corp, self.hash_seeds, soak=True) for k in range(c["soak"])]
                    + [gen.c11_spec(self.seed, k, self.corp, self.hash_seeds) for k in range(c["runs"])])
        if p == "C14":
            return (gen.c14_directed_specs(self.corp, self.hash_seeds)
                    + [gen.c14_spec(self.seed, k, self.corp, self.hash_seeds, soak=True) for k in range(c["soak"])]
                    + [gen.c14_spec(self.seed, k, self.corp, self.hash_seeds) for k in range(c["runs"])])
        raise SystemExit("unknown property %s" % p)

    # -- one spec, fully judged (used by minimisation and replay) ---------------------------------
    def run_and_judge(self, spec, runner=None):
        res = (runner or self.oneshot).run(spec)
        if res.get("harness_error"):
            return res, {"property": self.prop, "class": "harness", "message": res["harness_error"], "harness": True}
        for k, s in judge.NEEDS[self.prop](spec, res).items():
            self.refs.get(k, s)
        return res, judge.JUDGE[self.prop](spec, res, self.refs)

    def relabel(self, v, spec):
        if v and v["class"] == "history-dependent" and len(spec.get("ops", [])) == 1 and spec.get("hash_seed", 0) != 0:
            v = dict(v)
            v["class"] = "hashseed-dependent"
            v["message"] = "the result depends on the interpreter's hash seed (PYTHONHASHSEED=%d): %s" % (spec["hash_seed"], v["message"])
        return v

    # -- main flow -------------------------------------------------------------------------------
    def run(self):
        prop = self.prop
        log("[%s] tier=%s seed=%d tree=%s workers=%d hash_seeds=%s" % (prop, self.tier, self.seed, tree_digest(),
                                                                        self.farm.workers, self.hash_seeds[:8]))
        specs = self.build_specs()
        log("[%s] %d run specs generated in %.1f s" % (prop, len(specs), time.monotonic() - self.t0))
        done = [0]

        early = os.environ.get("VERIF_EARLY_STOP") == "1"  # sensitivity runs: a decided batch need not be finished

        def on_result(i, r):
            done[0] += 1
            if early and r and not r.get("harness_error") and (
                    r.get("violation") or any(c.get("class") in judge.C10_LOCAL + ("input-mutated",)
                                              for rec in r.get("ops") or [] for c in rec.get("checks") or [])):
                self.farm.stop = True
            if done[0] % 500 == 0:
                log("[%s]   %d/%d runs, %.0f s" % (prop, done[0], len(specs), time.monotonic() - self.t0))

        results = self.farm.run_all(specs, on_result=on_result, deadline=self.deadline)
        stopped_early, self.farm.stop = self.farm.stop, False
        executed = [(s, r) for s, r in zip(specs, results) if r is not None]
        skipped = len(specs) - len(executed)
        if skipped:
            self.notes.append("%d generated runs were not executed: %s" % (
                skipped, "VERIF_EARLY_STOP=1 and a run had already violated the property" if stopped_early
                else "wall budget of %d s reached" % self.cfg["budget_s"]))
        log("[%s] %d runs executed in %.1f s; computing references" % (prop, len(executed), time.monotonic() - self.t0))
        # references are computed in run order under their own wall budget; a run whose references did not all make it
        # is not judged (and is reported as such), never judged against a partial set
        scale = float(os.environ.get("VERIF_BUDGET_SCALE", "1"))
        ref_deadline = time.monotonic() + self.cfg.get("ref_budget_s", 600) * max(scale, 0.25)
        wanted = {}
        needs_of = []
        for s, r in executed:
            n = judge.NEEDS[prop](s, r)
            needs_of.append(set(n))
            for k, v in n.items():
                wanted.setdefault(k, v)
        self.refs.ensure(wanted, deadline=ref_deadline)
        have = set(self.refs.cache)
        judged = [(s, r) for (s, r), n in zip(executed, needs_of) if n <= have]
        if len(judged) < len(executed):
            self.notes.append("%d executed runs were not judged: their references were not computed within the reference budget of %d s"
                              % (len(executed) - len(judged), self.cfg.get("ref_budget_s", 600)))
        executed = judged
        log("[%s] %d references (%d computed) at %.1f s; %d runs judged" % (prop, len(wanted), self.refs.computed, time.monotonic() - self.t0, len(executed)))
        violations, harness = [], []
        for s, r in executed:
            if r.get("harness_error"):
                harness.append((s, r["harness_error"]))
                continue
            v = judge.JUDGE[prop](s, r, self.refs)
            if v is None:
                continue
            if v.get("harness"):
                harness.append((s, v["message"]))
                continue
            violations.append((s, r, v))
        det = self.determinism_sample(executed)
        self.conf = self.conformance(executed)
        for m in self.conf.get("mismatch_details", []):
            harness.append(({"label": "stub-vs-real " + m.get("part", "")}, "the simulator's stub disagrees with the real process: %r" % (m,)))
        out = self.report(specs, executed, violations, harness, det)
        self.refs.save()
        self.oneshot.close()
        return out

    def determinism_sample(self, executed, n=24):
        """same spec, another zygote instance (another process, another address-space layout): the
        run digest must be identical"""
        sample = executed[:: max(1, len(executed) // n)][:n]
        bad = []
        by_seed = {}
        for s, r in sample:
            by_seed.setdefault(s.get("hash_seed", 0), []).append((s, r))
        count = 0
        for seed, items in by_seed.items():
            z = self.oneshot.fresh(seed)
            try:
                for s, r in items:
                    r2 = z.run(s)
                    count += 1
                    if r2.get("digest") != r.get("digest"):
                        bad.append({"label": s.get("label", s.get("k")), "a": r.get("digest"), "b": r2.get("digest")})
            finally:
                z.close()
        return {"compared": count, "equal": count - len(bad), "mismatches": bad[:5]}

    def conformance(self, executed):
        """stub versus real processes (sim/conform.py); sizes per tier, VERIF_CONFORMANCE=0 switches it off"""
        if os.environ.get("VERIF_CONFORMANCE", "1") == "0":
            return {"ran": False, "why": "VERIF_CONFORMANCE=0"}
        from . import conform
        from .zpool import SHARE
        n = CONFORM[self.tier]
        t0 = time.monotonic()
        c = conform.Conformance(REPO_SRC)
        try:
            if self.prop in ("C10", "C11"):
                c.helpers(list(SHARE.items), n["helper"])
                keys = sorted(k for k in self.refs.cache if k.startswith("api:") and k in self.refs.specs)
                pairs = []
                for k in keys:
                    ref = self.refs.cache[k]
                    res = ref.get("result")
                    if not isinstance(res, dict) or "__outcome__" in res:
                        continue
                    desc = res.get("error", {}).get("description", "") if isinstance(res.get("error"), dict) else ""
                    if "recursion" in desc.lower():
                        continue  # depends on the caller's stack depth (risk B2)
                    req = self.refs.specs[k]["ops"][0]
                    pairs.append((req, res, None, bool(ref.get("helpers"))))
                pairs = pairs[:: max(1, len(pairs) // n["api"])][: n["api"]]
                seeds = [None, 0] + [h for h in self.hash_seeds if h]
                pairs = [(a, b, seeds[i % len(seeds)], d) for i, (a, b, _, d) in enumerate(pairs)]
                c.api(pairs)
            if self.prop == "C14":
                el = [(s, r) for s, r in executed if conform.daemon_session_eligible(s, r)]
                el = el[:: max(1, len(el) // n["daemon"])][: n["daemon"]]
                c.daemon(el)
        finally:
            c.close()
        rep = dict(c.report)
        out = {"ran": True, "wall_s": round(time.monotonic() - t0, 1), "mismatch_details": c.mismatches()}
        for part, r in rep.items():
            out[part] = {k: v for k, v in r.items() if k != "mismatches"}
            out[part]["mismatches"] = len(r["mismatches"])
        log("[%s] stub-vs-real conformance: %s (%.0f s)" % (self.prop, {p: "%d/%d" % (v["equal"], v["compared"]) for p, v in rep.items() if v["compared"]}, out["wall_s"]))
        return out

    # -- reporting -------------------------------------------------------------------------------
    def report(self, specs, executed, violations, harness, det):
        prop = self.prop
        known = load_known()
        groups = {}
        for s, r, v in violations:
            groups.setdefault(signature(v), []).append((s, r, v))
        new_lines, known_lines = [], {}
        os.makedirs(REPLAY_DIR, exist_ok=True)
        reported = 0
        for sig in sorted(groups):
            items = groups[sig]
            items.sort(key=lambda t: len(json.dumps(t[0])))
            s, r, v = items[0]
            k = match_known(v, known)
            if k is not None:
                known_lines.setdefault(k["id"], [k, 0])
                known_lines[k["id"]][1] += len(items)
                continue
            if reported >= 8:
                new_lines.append((v, None, len(items)))
                continue
            reported += 1
            cls = v["class"]

            def fails(cand, cls=cls):
                _, vv = self.run_and_judge(cand)
                return vv is not None and not vv.get("harness") and vv["class"] == cls

            small, steps, used = minimise.minimise(s, fails, budget=150 if self.tier == "quick" else 400)
            # re-execute the minimised spec once more in a fresh zygote; only then report
            z = self.oneshot.fresh(small.get("hash_seed", 0))
            try:
                res2, v2 = self.run_and_judge(small, runner=z)
            finally:
                z.close()
            if v2 is None or v2.get("harness") or v2["class"] != cls:
                small, steps = s, ["minimised spec did not reproduce in a fresh zygote; original spec kept"]
                z = self.oneshot.fresh(small.get("hash_seed", 0))
                try:
                    res2, v2 = self.run_and_judge(small, runner=z)
                finally:
                    z.close()
                if v2 is None or v2.get("harness") or v2["class"] != cls:
                    harness.append((s, "violation %s did not reproduce on replay (nondeterminism in the harness or the SUT): %s" % (cls, v["message"])))
                    continue
            v2 = self.relabel(v2, small)
            k = match_known(v2, known)
            if k is not None:
                known_lines.setdefault(k["id"], [k, 0])
                known_lines[k["id"]][1] += len(items)
                continue
            name = "%s-%s-%s.json" % (prop, v2["class"], oracle.digest(small))
            path = os.path.join(REPLAY_DIR, name)
            with open(path, "w") as f:
                json.dump({"property": prop, "class": v2["class"], "message": v2["message"], "seed": self.seed,
                           "tree": tree_digest(), "occurrences_in_batch": len(items), "minimisation": steps,
                           "minimisation_runs": used, "spec": small, "events": res2.get("events", [])[:400]}, f, indent=1)
            new_lines.append((v2, path, len(items)))
        wall = time.monotonic() - self.t0
        ev = self.evidence(specs, executed, violations, harness, det, wall, new_lines, known_lines)
        os.makedirs(EVIDENCE_DIR, exist_ok=True)
        with open(os.path.join(EVIDENCE_DIR, "%s.json" % prop), "w") as f:
            json.dump(ev, f, indent=1, default=repr)
        for kid, (k, n) in sorted(known_lines.items()):
            log("KNOWN-FINDING: property=%s %s [%s, %d runs]" % (prop, k.get("summary", k["id"]), k["id"], n))
        for v, path, n in new_lines:
            log("VIOLATION property=%s replay=%s" % (prop, path or "(not minimised: more than 8 distinct violations)"))
            log("    class=%s occurrences=%d  %s" % (v["class"], n, v["message"][:400]))
        for s, msg in harness[:5]:
            log("HARNESS-ERROR %s: %s" % (s.get("label", s.get("k")), str(msg)[:600]))
        if det["mismatches"]:
            log("HARNESS-ERROR determinism: %r" % (det["mismatches"],))
        for nte in self.notes:
            log("note: " + nte)
        log("[%s] %d runs, %d violations (%d distinct new, %d known), %d harness errors, %.0f s, %.0f runs/h"
            % (prop, len(executed), len(violations), len(new_lines), len(known_lines), len(harness), wall,
               len(executed) / max(wall, 1e-9) * 3600))
        if new_lines:
            return 1
        if harness or det["mismatches"] or not executed:
            return 2
        return 0

    def evidence(self, specs, executed, violations, harness, det, wall, new_lines, known_lines):
        prop = self.prop
        faults, probes = Counter(), Counter()
        sched = Counter()
        vtime = 0.0
        steps = 0
        traces = set()
        nontrivial = set()
        pairs = set()
        tuples = set()
        for s, r in executed:
            if r.get("harness_error"):
                continue
            for k, n in (r.get("faults") or {}).items():
                faults[k] += n
            for k, n in (r.get("probes") or {}).items():
                probes[k] += n
            vtime += r.get("vtime", 0.0)
            steps += r.get("steps", 0)
            sc = r.get("sched") or {}
            sched["runs_with_more_than_one_thread"] += 1 if sc.get("threads", 1) > 1 else 0
            sched["thread_switches"] += sc.get("switches", 0)
            sched["scheduling_decisions"] += sc.get("decisions", 0)
            sched["decisions_taken_from_spec"] += sc.get("plan_used", 0)
            tr, nt = abstract_trace(s, r)
            traces.add(tr)
            if nt:
                nontrivial.add(tr)
            for a, b in zip(tr[1], tr[1][1:]):
                pairs.add((a, b))
            tuples.add(tr[0])
        cov = {
            "evaluations": len(executed),
            "distinct_nontrivial": len(nontrivial),
            "rule": RULES[prop],
            "samples": [self.sample_of(s, r) for s, r in executed[:: max(1, len(executed) // 3)][:3]],
            "exhaustive": False,
            "generated": len(specs),
            "distinct_abstract_traces": len(traces),
            "distinct_interleavings": {"measure": "distinct ordered pairs of consecutive request classes "
                                                  "(corpus family x option class x outcome x fault kinds)", "count": len(pairs)},
            "distinct_run_shapes": len(tuples),
            "runs_per_hour": round(len(executed) / max(wall, 1e-9) * 3600),
            "seeds": {"VERIF_SEED": self.seed, "run_streams": "mix(seed, property, k) for k in 0..%d" % (len(specs) - 1)},
            "hash_seeds": self.hash_seeds,
            "simulated_seconds": round(vtime, 3),
            "sut_steps": steps,
            "fault_counts": dict(sorted(faults.items())),
            "scheduler": dict(sched, note="the unchanged SUT is one sequential thread: the scheduler then only moves virtual time; "
                                          "thread hand-over is exercised by ./check selftest on threaded trees"),
            "probes": dict(sorted(probes.items())),
            "probes_at_zero": [p for p in EXPECTED_PROBES[prop] if not probes.get(p) and not faults.get(p)],
            "references_computed": self.refs.computed,
            "references_from_disk_memo": self.refs.from_disk,
            "zygote_boots": self.farm.zygote_boots,
            "determinism_sample": det,
            "stub_validation": getattr(self, "conf", {"ran": False}),
            "components": COMPONENTS,
            "tree": tree_digest(),
            "harness_errors": [str(m)[:300] for _, m in harness[:5]],
            "known_findings_seen": {k: n for k, (_, n) in known_lines.items()},
            "new_violations": [{"class": v["class"], "message": v["message"][:300], "replay": p, "occurrences": n} for v, p, n in new_lines],
            "notes": self.notes,
        }
        if prop == "C10":
            sweep_runs = [(s, r) for s, r in executed if s.get("origin") == "sweep"]
            fired = sum(1 for s, r in sweep_runs if not r.get("harness_error") and any(f != "ok" for f in (r.get("faults") or {})))
            cov["single_fault_sweep"] = {"enumerated": len(getattr(self, "sweep", [])), "executed": len(sweep_runs),
                                         "fault_fired_in": fired,
                                         "exhaustive_over": ("every constexpr corpus entry x helper-invocation index x %d fault points" % len(gen.FAULT_POINTS)) if self.tier == "thorough"
                                         else ("%d core constexpr entries x helper-invocation index x %d fault points; the other entries x %d points (one per fault kind)"
                                               % (len(gen.SWEEP_CORE), len(gen.FAULT_POINTS), len(gen.SWEEP_REDUCED_KINDS))),
                                         "complete": len(sweep_runs) == len(getattr(self, "sweep", []))}
        return {
            "property_id": prop, "tier": self.tier, "seed": self.seed, "level": LEVEL[prop], "coverage": cov,
            "assumptions": ASSUMPTIONS[prop], "wall_s": round(wall, 2), "violations": len(new_lines),
        }

    @staticmethod
    def sample_of(s, r):
        s = json.loads(json.dumps(s))
        if s["kind"] == "api":
            for op in s["ops"]:
                op["src"] = {k: (v if len(v) < 300 else v[:300] + "...[%d chars]" % len(v)) for k, v in op["src"].items()}
            s["ops"] = s["ops"][:8]
        else:
            for ln in s["session"]["lines"]:
                if len(ln["raw"]) > 200:
                    ln["raw"] = ln["raw"][:200] + "...[%d chars]" % len(ln["raw"])
            s["session"]["lines"] = s["session"]["lines"][:10]
        return {"spec": s, "digest": r.get("digest"), "virtual_seconds": r.get("vtime"), "faults_fired": r.get("faults")}


def _opt_class(o):
    o = o or {}
    return "%d%d%d" % (bool(o.get("compact")), bool(o.get("inline_functions", True)), bool(o.get("use_push_pop_functions")))


def _outcome(res):
    if not isinstance(res, dict):
        return "?"
    if "__outcome__" in res:
        return res["__outcome__"]
    if "code" in res:
        return "code"
    e = res.get("error")
    if isinstance(e, dict) and str(e.get("description", "")).startswith("Internal compiler error"):
        return "internal"
    return "error"


def abstract_trace(s, r):
    """-> ((run shape), (per-request classes)), nontrivial?"""
    if s["kind"] == "api":
        classes = []
        nontrivial = False
        for rec in r.get("ops", []):
            op = s["ops"][rec["i"]]
            fam = op.get("entry", "?").split("/")[0]
            fk = tuple(sorted(set(f for f in rec.get("faults", []) if f != "ok")))
            classes.append((fam, _opt_class(op.get("options")), _outcome(rec.get("result")), fk, op.get("opt_style", "obj")))
            if fk:
                nontrivial = True
        for a, b in zip(classes, classes[1:]):
            if a[1] != b[1] or (a[0] in "KOD" and b[0] in "KODM"):
                nontrivial = True
        return (("api", s.get("hash_seed", 0) != 0), tuple(classes)), nontrivial
    sess = s["session"]
    kinds = tuple(sorted(set(l.get("entry", "").split("/")[0] + ":" + l.get("kind", "") for l in sess["lines"])))
    jset = tuple(sorted(set(l.get("entry") for l in sess["lines"] if l.get("kind") in ("junk", "empty", "blank", "torn"))))
    fk = tuple(sorted((r.get("faults") or {}).keys()))
    ch = sess.get("chunking", {}).get("mode", "whole")
    shape = ("daemon", sess.get("client", {}).get("mode"), ch, sess.get("end"), jset, fk, bool(r.get("stolen")),
             sess.get("stdin_errors"))
    classes = tuple((l.get("entry", "?").split("/")[0], l.get("kind")) for l in sess["lines"])
    return (shape, classes), bool(jset or fk)


RULES = {
    "C10": "Cases are run specs, in this order: (a) DIRECTED batches - every corpus entry compiled once (12 per run), constexpr-related pairs "
           "as a,b,a, programs that compile to nothing under every output-decorating option set, the same runaway program 7 times in a "
           "row (fault-free and with the same helper fault every time), five expression shapes swept across the recursion limit, fixed "
           "scheduling plans; (b) ENUMERATED single-fault sweep - constexpr corpus entry x helper-invocation index x fault point, each "
           "followed by the same request fault-free (quick: all points for the core entries, one point per fault kind for the others; "
           "thorough: everything); (c) seeded random histories of 1-6 requests from the K/E/O/R/T families with multi-fault plans, odd "
           "option values, clock jumps, scheduling plans; (d, thorough) every prefix of every repository program. Two runs are the same "
           "case if their abstract trace is equal: per request (corpus family, option class, outcome class code/error/internal/raised/"
           "hang, set of fault kinds that FIRED, options style). A case is non-trivial if at least one fault fired in it or two "
           "consecutive requests differ in option class / touch a cache-relevant family. distinct_nontrivial counts distinct "
           "non-trivial abstract traces.",
    "C11": "Cases are histories executed in one forked pristine interpreter with a controlled PYTHONHASHSEED, each result compared with "
           "the stateless reference (same request, first thing in a fresh hash-seed-0 process): (a) DIRECTED - every pair of requests "
           "known to touch the same state as a,b,a under three calling styles, every corpus entry as first requests of a process at a "
           "non-zero hash seed, every failing request (compiled compact) followed by state-reading probes, a transient helper fault "
           "followed by the same and a related request, compact-then-verbose for every mode-sensitive entry, every name-sensitive entry "
           "under every hash seed of the run; (b) soak histories of 60-300 requests over a small pool; (c) seeded random histories of "
           "2-30 requests. Abstract trace as for C10. Non-trivial: contains an ordered pair of requests with different option classes, "
           "a cache-relevant family transition, or a fired helper fault. distinct_nontrivial counts distinct non-trivial abstract traces.",
    "C14": "Cases are simulated daemon lifetimes: the real mod_daemon module run as __main__ on simulated descriptors, driven by a client "
           "model: (a) DIRECTED - every constexpr entry and every malformed-line class once (lock-step and pipelined), every helper fault "
           "point once behind the daemon, CRLF sessions incl. CRLF-terminated EXIT, the same code under different options, large requests "
           "and replies with short writes, lines of more than a mebibyte, bursts followed at once by EXIT, fixed thread schedules; "
           "(b) soak sessions of 60-300 lines; (c) seeded random sessions of 1-40 lines. Run shape = (client mode, chunking class, "
           "termination, set of malformed-line classes present, set of fault kinds fired, request stolen by a helper?, stdin error "
           "mode); abstract trace = shape + sequence of (family, line kind). Non-trivial: at least one malformed/empty/blank/torn line "
           "or fired fault. distinct_nontrivial counts distinct non-trivial abstract traces.",
}
EXPECTED_PROBES = {
    "C10": ["helper-timeout", "helper-killed", "helper-intrinsic-never-ends", "helper-intrinsic-blocked-on-stdin", "spawn_fail",
            "crash", "nonzero", "garbage_out", "stderr_noise", "slow", "stall", "orphan", "drip", "linger"],
    "C11": ["helper-script-run", "helper-timeout"],
    "C14": ["eof-mid-line", "short_write", "helper-timeout"],
}
COMPONENTS = {
    "real": ["stationeers_pytrapic.compiler.compile_code and all 15 passes", "astroid", "stationeers_pytrapic.mod_daemon (run by runpy as __main__)",
             "the generated constexpr evaluation script and the package it imports (executed in a fork of the pristine zygote)",
             "CPython's io.BufferedReader/BufferedWriter/TextIOWrapper on top of the simulated raw descriptors", "json/base64 framing"],
    "stub": ["subprocess.Popen and the helper's process life cycle (SimPopen: creation, scheduling, time, descriptor inheritance, signals)",
             "time.time/monotonic/sleep (SimClock, virtual seconds)", "fd 0/1/2 of the daemon (SimRawIn/SimRawOut)",
             "the game client (lock-step model from mod/PyTrapIC.cs, and a pipelining variant)",
             "a fresh process = fork of a never-compiled interpreter started with the run's PYTHONHASHSEED"],
}
ASSUMPTIONS = {
    "C10": ["CPython 3.12 on Linux, daemon/CLI deployment (the pyodide in-process exec branch of eval_constexpr is not executed)",
            "helper scripts are executed for real but in a fork of an interpreter that already imported the package; their timing is simulated",
            "a clean batch is evidence, not proof: inputs come from a corpus plus typing sessions, not from a program generator",
            "'promptly' = at most 30 virtual seconds per helper invocation and 5e7 interpreter events / 60 CPU seconds per compile"],
    "C11": ["the reference 'fresh process' is a fork of a primed, never-compiled interpreter at PYTHONHASHSEED=0",
            "error.stack_trace is dropped and 0x... addresses in error.description are masked before comparing; nothing else",
            "sequential callers only (both shipped front ends serialise calls)"],
    "C14": ["the client is a model of mod/PyTrapIC.cs; pipe capacities and stdout write errors (EPIPE) are not modelled",
            "a whitespace-only line may get zero or one error reply; only the exact line EXIT is the stop word",
            "the leaked-helper stdin race is decided by the spec, not by the kernel"],
}


# ------------------------------------------------------------------------------------------------
def replay(prop, path):
    with open(path) as f:
        doc = json.load(f)
    spec = doc["spec"] if "spec" in doc else doc
    prop = prop or doc.get("property") or spec.get("property")
    chk = Check(prop, "quick", int(doc.get("seed", 0)))
    z = chk.oneshot.fresh(spec.get("hash_seed", 0))
    try:
        res, v = chk.run_and_judge(spec, runner=z)
    finally:
        z.close()
        chk.oneshot.close()
    if v is not None and v.get("harness"):
        log("HARNESS-ERROR %s" % v["message"][:1000])
        return 2
    v = chk.relabel(v, spec)
    if v is None:
        log("NOT REPRODUCED: the spec runs without a violation on this tree (%s)" % tree_digest())
        return 0
    log("REPRODUCED class=%s %s" % (v["class"], v["message"][:600]))
    if doc.get("class") and doc["class"] != v["class"]:
        log("note: the replay file recorded class=%s" % doc["class"])
    log("VIOLATION property=%s replay=%s" % (prop, path))
    return 1


def setup():
    from .zpool import Zygote
    z = Zygote(0, REPO_SRC)
    info = z.wait_ready()
    r = z.run({"kind": "api", "hash_seed": 0, "knobs": {}, "ops": [{"src": {"": "from stationeers_pytrapic.symbols import *\ndb.Setting = 1\n"}, "options": {}}]})
    z.close()
    ok = not r.get("harness_error") and r["ops"][0]["result"].get("code")
    log("setup: zygote %s; smoke compile %s" % (info, "ok" if ok else r))
    return 0 if ok else 2


def main(argv=None):
    ap = argparse.ArgumentParser()
    ap.add_argument("what")
    ap.add_argument("names", nargs="*")
    ap.add_argument("--tier", default=os.environ.get("VERIF_TIER") or "quick")
    ap.add_argument("--replay")
    ap.add_argument("--seed", type=int, default=None)
    a = ap.parse_args(argv)
    seed = a.seed if a.seed is not None else int(os.environ.get("VERIF_SEED", "0") or 0)
    if a.tier not in TIERS:
        a.tier = "quick"
    if a.what == "setup":
        return setup()
    if a.what == "selftest":
        from . import selftest
        return selftest.main(seed, a.tier)
    if a.what == "sensitivity":
        from . import sensitivity
        return sensitivity.main(a.names, a.tier)
    if a.what not in LEVEL:
        log("unknown check %r" % a.what)
        return 2
    if a.replay:
        return replay(a.what, a.replay)
    return Check(a.what, a.tier, seed).run()


if __name__ == "__main__":
    try:
        rc = main()
    except KeyboardInterrupt:
        rc = 2
    except SystemExit as e:
        raise
    except BaseException as e:  # noqa
        import traceback
        traceback.print_exc()
        print("HARNESS-ERROR %r" % (e,), flush=True)
        rc = 2
    sys.stdout.flush()
    os._exit(rc)
