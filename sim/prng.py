"""SplitMix64: the only source of randomness in the harness.

Everything a run does is derived from VERIF_SEED through this generator while the run *spec* is
generated; executing a spec draws nothing.  No dependence on `random`'s algorithms, so a spec
generated today is generated identically by any Python.
"""
import hashlib

MASK = (1 << 64) - 1


def _mix(z):
    z = (z + 0x9E3779B97F4A7C15) & MASK
    z = ((z ^ (z >> 30)) * 0xBF58476D1CE4E5B9) & MASK
    z = ((z ^ (z >> 27)) * 0x94D049BB133111EB) & MASK
    return z ^ (z >> 31)


def substream(seed, *labels):
    """A 64-bit state derived from an integer seed and string/int labels (stable across runs)."""
    h = hashlib.sha256(repr((int(seed),) + tuple(str(x) for x in labels)).encode()).digest()
    return int.from_bytes(h[:8], "big")


class Rng:
    def __init__(self, seed, *labels):
        self.s = substream(seed, *labels) if labels else (int(seed) & MASK)

    def u64(self):
        self.s = (self.s + 0x9E3779B97F4A7C15) & MASK
        z = self.s
        z = ((z ^ (z >> 30)) * 0xBF58476D1CE4E5B9) & MASK
        z = ((z ^ (z >> 27)) * 0x94D049BB133111EB) & MASK
        return z ^ (z >> 31)

    def below(self, n):
        if n <= 0:
            raise ValueError("below(%r)" % (n,))
        return self.u64() % n

    def between(self, a, b):
        """integer in [a, b]"""
        return a + self.below(b - a + 1)

    def unit(self):
        return (self.u64() >> 11) / float(1 << 53)

    def chance(self, p):
        return self.unit() < p

    def uniform(self, a, b):
        return a + (b - a) * self.unit()

    def choice(self, seq):
        return seq[self.below(len(seq))]

    def weighted(self, pairs):
        """pairs: list of (item, weight>=0)"""
        total = sum(w for _, w in pairs)
        if total <= 0:
            return pairs[0][0]
        x = self.unit() * total
        acc = 0.0
        for item, w in pairs:
            acc += w
            if x < acc:
                return item
        return pairs[-1][0]

    def shuffle(self, seq):
        seq = list(seq)
        for i in range(len(seq) - 1, 0, -1):
            j = self.below(i + 1)
            seq[i], seq[j] = seq[j], seq[i]
        return seq

    def sample(self, seq, k):
        return self.shuffle(seq)[:k]

    def fork(self, *labels):
        return Rng(self.u64(), *labels)
