"""A virtual-time asyncio event loop for the simulated process.

`asyncio.run()` / `new_event_loop()` in the SUT get a SimLoop: its clock is the simulator's clock, it never blocks in a
selector, and whenever it has nothing ready it blocks in the scheduler (sim/sched.py) - so timers (`wait_for`, `sleep`,
`call_later`) fire in virtual time, other threads (`run_in_executor`, `to_thread`) run in the meantime, and the client on
the daemon's pipes acts when the scheduler says so.  The daemon's simulated stdin/stdout can be attached with
`connect_read_pipe` / `connect_write_pipe` / `add_reader`; anything else that needs a real descriptor (sockets,
subprocess transports) is an unmodelled seam (HARNESS-ERROR, never a violation)."""
import asyncio
from asyncio import base_events, events, futures, transports

from .seams_base import Unmodelled


class _Selector:
    def __init__(self, loop):
        self.loop = loop

    def select(self, timeout=None):
        return self.loop._sim_select(timeout)

    def close(self):
        pass

    def get_map(self):
        return {}


class _ReadPipe(transports.ReadTransport):
    def __init__(self, loop, session, protocol, waiter=None, extra=None):
        super().__init__(extra)
        self._loop, self._s, self._protocol = loop, session, protocol
        self._paused = False
        self._closing = False
        self._eof = False
        loop._read_pipes.append(self)
        loop.call_soon(protocol.connection_made, self)
        if waiter is not None:
            loop.call_soon(futures._set_result_unless_cancelled, waiter, None)

    def _active(self):
        return not (self._paused or self._closing or self._eof)

    def _ready(self):
        return self._active() and self._s.poll_stdin()

    def _on_ready(self):
        if not self._active():
            return
        data = self._s.read_nonblocking(256 * 1024)
        if data is None:
            return
        if data:
            self._protocol.data_received(data)
        else:
            self._eof = True
            keep = self._protocol.eof_received()
            if not keep:
                self.close()

    def pause_reading(self):
        self._paused = True

    def resume_reading(self):
        self._paused = False

    def is_reading(self):
        return self._active()

    def set_protocol(self, protocol):
        self._protocol = protocol

    def get_protocol(self):
        return self._protocol

    def is_closing(self):
        return self._closing

    def close(self):
        if self._closing:
            return
        self._closing = True
        if self in self._loop._read_pipes:
            self._loop._read_pipes.remove(self)
        self._loop.call_soon(self._protocol.connection_lost, None)

    def __del__(self):
        pass


class _WritePipe(transports.WriteTransport):
    def __init__(self, loop, sink, protocol, waiter=None, extra=None):
        super().__init__(extra)
        self._loop, self._sink, self._protocol = loop, sink, protocol
        self._closing = False
        loop.call_soon(protocol.connection_made, self)
        if waiter is not None:
            loop.call_soon(futures._set_result_unless_cancelled, waiter, None)

    def write(self, data):
        data = bytes(data)
        while data:  # a pipe accepts what fits; the transport keeps writing the rest
            n = self._sink(data)
            data = data[n:]

    def writelines(self, lines):
        for ln in lines:
            self.write(ln)

    def get_write_buffer_size(self):
        return 0

    def get_write_buffer_limits(self):
        return (0, 65536)

    def set_write_buffer_limits(self, high=None, low=None):
        pass

    def can_write_eof(self):
        return True

    def write_eof(self):
        self.close()

    def set_protocol(self, protocol):
        self._protocol = protocol

    def get_protocol(self):
        return self._protocol

    def is_closing(self):
        return self._closing

    def abort(self):
        self.close()

    def close(self):
        if self._closing:
            return
        self._closing = True
        self._loop.call_soon(self._protocol.connection_lost, None)

    def __del__(self):
        pass


class _SubPipe(transports.ReadTransport):
    """what get_pipe_transport(1|2) of a subprocess transport returns"""

    def __init__(self, owner, fd, which):
        super().__init__()
        self._owner, self.fd, self.which = owner, fd, which
        self.pos, self.paused, self.disconnected = 0, False, False

    def pause_reading(self):
        self.paused = True

    def resume_reading(self):
        self.paused = False

    def is_reading(self):
        return not (self.paused or self.disconnected)

    def is_closing(self):
        return self.disconnected

    def close(self):
        self._owner._pipe_closed(self)

    def __del__(self):
        pass


class _SimSubprocess(transports.SubprocessTransport):
    """loop.subprocess_exec / asyncio.create_subprocess_exec on the simulated helper: the protocol's callbacks are
    made by the loop at the virtual times at which the helper writes, its pipes reach EOF, and it exits - in the order
    asyncio's own transport produces them (data, pipe_connection_lost, process_exited, connection_lost last)."""

    def __init__(self, loop, protocol, proc, extra=None):
        super().__init__(extra)
        self._loop, self._protocol, self._p = loop, protocol, proc
        self._pipes = {}
        if proc.stdout is not None:
            self._pipes[1] = _SubPipe(self, 1, "out")
        if proc.stderr is not None:
            self._pipes[2] = _SubPipe(self, 2, "err")
        self._exited = self._finished = self._closed = False
        proc._resolve()
        proc._start_reading()
        loop._subprocs.append(self)
        loop.call_soon(protocol.connection_made, self)

    # -- what the loop asks ---------------------------------------------------------------------------
    def _events(self, now):
        p, ev, pr = self._p, [], self._protocol
        if self._finished:
            return ev
        for sp in self._pipes.values():
            if sp.disconnected:
                continue
            if not sp.paused:
                data = p._avail(sp.which, now)[sp.pos:]
                if data:
                    sp.pos += len(data)
                    ev.append(lambda fd=sp.fd, data=data: pr.pipe_data_received(fd, data))
            if now >= p._pipes_end() and not sp.paused and sp.pos >= len(p._avail(sp.which, now)):
                sp.disconnected = True
                self._sync_streams()
                ev.append(lambda fd=sp.fd: pr.pipe_connection_lost(fd, None))
        if not self._exited and now >= p._proc_end():
            if p.returncode is None:
                p.poll()
            self._exited = True
            ev.append(pr.process_exited)
        if self._exited and all(sp.disconnected for sp in self._pipes.values()):
            self._finished = True
            if self in self._loop._subprocs:
                self._loop._subprocs.remove(self)
            ev.append(lambda: pr.connection_lost(None))
        return ev

    def _next_time(self, now):
        p = self._p
        if self._finished:
            return float("inf")
        t = float("inf") if self._exited else p._proc_end()
        for sp in self._pipes.values():
            if not sp.disconnected and not sp.paused:
                t = min(t, p._next_output_time(sp.which, now), p._pipes_end())
        return t

    def _sync_streams(self):
        # the helper model asks its stream objects whether the parent still holds the read ends
        for sp, st in ((self._pipes.get(1), self._p.stdout), (self._pipes.get(2), self._p.stderr)):
            if sp is not None and st is not None and sp.disconnected:
                st.closed = True

    def _pipe_closed(self, sp):
        if not sp.disconnected:
            sp.disconnected = True
            self._sync_streams()
            self._loop.call_soon(self._protocol.pipe_connection_lost, sp.fd, None)
            self._p.world.sched.notify(self._p)

    # -- SubprocessTransport ----------------------------------------------------------------------------
    def get_pid(self):
        return self._p.pid

    def get_returncode(self):
        return self._p.returncode if self._exited or self._p._killed else None

    def get_pipe_transport(self, fd):
        return self._pipes.get(fd)

    def _check(self):
        if self._closed and self._exited:
            raise ProcessLookupError()

    def send_signal(self, sig):
        self._check()
        self._p.send_signal(sig)

    def terminate(self):
        self._check()
        self._p.terminate()

    def kill(self):
        self._check()
        self._p.kill()

    def is_closing(self):
        return self._closed

    def set_protocol(self, protocol):
        self._protocol = protocol

    def get_protocol(self):
        return self._protocol

    def close(self):
        if self._closed:
            return
        self._closed = True
        for sp in self._pipes.values():
            sp.close()
        if not self._exited and self._p.returncode is None and self._p.sim_alive():
            self._p.kill()  # asyncio's transport kills a process that is still running when it is closed

    def __del__(self):
        pass


class SimLoop(base_events.BaseEventLoop):
    def __init__(self, world):
        super().__init__()
        self._w = world
        self._selector = _Selector(self)
        self._read_pipes = []
        self._subprocs = []
        self._readers = {}  # stream object id -> (callback, args)
        self._clock_resolution = 1e-9

    # -- time ---------------------------------------------------------------------------------------
    def time(self):
        return 1000.0 + self._w.clock.now

    # -- the one blocking point -----------------------------------------------------------------------
    def _io_events(self):
        ev = [rp._on_ready for rp in list(self._read_pipes) if rp._ready()]
        for sp in list(self._subprocs):
            ev.extend(sp._events(self._w.clock.now))
        s = self._w.session
        if s is not None and self._readers and s.poll_stdin():
            for cb, args in list(self._readers.values()):
                ev.append(lambda cb=cb, args=args: cb(*args))
        return ev

    def _wants_stdin(self):
        return any(rp._active() for rp in self._read_pipes) or bool(self._readers)

    def _sim_select(self, timeout):
        ev = self._io_events()
        if ev or (timeout is not None and timeout <= 0):
            return ev
        s = self._w.session
        if self._wants_stdin() and s is not None:
            s.blocks += 1
        if self._subprocs:
            now = self._w.clock.now
            nxt = min(sp._next_time(now) for sp in self._subprocs) - now
            if nxt != float("inf") and (timeout is None or nxt < timeout):
                timeout = max(nxt, 0.0)
        self._w.sched.block(on=self, timeout=timeout, stdin=self._wants_stdin() and s is not None)
        return self._io_events()

    def _process_events(self, event_list):
        for cb in event_list:
            cb()

    def _write_to_self(self):
        self._w.sched.notify(self)

    # -- pipes ------------------------------------------------------------------------------------------
    def _stream_role(self, pipe):
        s = self._w.session
        if s is None:
            raise Unmodelled("asyncio pipe transport outside a daemon run")
        role = s.stream_role(pipe)
        if role is None:
            raise Unmodelled("asyncio transport on %r: not one of the simulated standard streams" % (pipe,))
        return s, role

    def _make_read_pipe_transport(self, pipe, protocol, waiter=None, extra=None):
        s, role = self._stream_role(pipe)
        if role != "stdin":
            raise Unmodelled("connect_read_pipe on %s" % role)
        self._w.probe("aio-read-pipe")
        return _ReadPipe(self, s, protocol, waiter, extra)

    def _make_write_pipe_transport(self, pipe, protocol, waiter=None, extra=None):
        s, role = self._stream_role(pipe)
        if role == "stdout":
            return _WritePipe(self, s.write_out, protocol, waiter, extra)
        if role == "stderr":
            return _WritePipe(self, s.write_err, protocol, waiter, extra)
        raise Unmodelled("connect_write_pipe on %s" % role)

    def add_reader(self, fd, callback, *args):
        s, role = self._stream_role(fd)
        if role != "stdin":
            raise Unmodelled("add_reader on %s" % role)
        self._readers[id(fd)] = (callback, args)

    def remove_reader(self, fd):
        return self._readers.pop(id(fd), None) is not None

    def add_writer(self, fd, callback, *args):
        raise Unmodelled("loop.add_writer")

    def remove_writer(self, fd):
        return False

    def _make_socket_transport(self, *a, **k):
        raise Unmodelled("asyncio socket transport")

    def _make_ssl_transport(self, *a, **k):
        raise Unmodelled("asyncio ssl transport")

    def _make_datagram_transport(self, *a, **k):
        raise Unmodelled("asyncio datagram transport")

    async def _make_subprocess_transport(self, protocol, args, shell, stdin, stdout, stderr, bufsize, extra=None, **kwargs):
        import subprocess
        if shell or stdin == subprocess.PIPE:
            raise Unmodelled("asyncio subprocess transport with shell=%r stdin=%r" % (shell, stdin))
        self._w.probe("aio-subprocess")
        proc = subprocess.Popen(args, stdin=stdin, stdout=stdout, stderr=stderr, bufsize=bufsize, **kwargs)
        return _SimSubprocess(self, protocol, proc, extra)

    def add_signal_handler(self, sig, callback, *args):
        raise Unmodelled("loop.add_signal_handler")

    def remove_signal_handler(self, sig):
        return False

    def close(self):
        super().close()


class SimPolicy(events.BaseDefaultEventLoopPolicy):
    def __init__(self, world):
        super().__init__()
        self._w = world

    def _loop_factory(self):
        return SimLoop(self._w)

    def new_event_loop(self):
        return SimLoop(self._w)


def install(world):
    asyncio.set_event_loop_policy(SimPolicy(world))
    # explicit constructions of the platform loops get the simulated one as well
    mk = lambda *a, **k: SimLoop(world)  # noqa: E731
    asyncio.SelectorEventLoop = mk
    if hasattr(asyncio, "DefaultEventLoopPolicy"):
        asyncio.DefaultEventLoopPolicy = lambda: SimPolicy(world)
