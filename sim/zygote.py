"""Zygote: a real interpreter started with a controlled PYTHONHASHSEED that imports the package
from /repo's working tree, primes astroid's cache of the package's own modules, and then never
compiles anything.  Each simulated run is a fork of it ("a fresh process" in 45 ms); each distinct
constexpr script is executed in another fork (helper.py).

Protocol on the inherited descriptors (length-prefixed JSON):
   -> {"op":"run","spec":{...}}          <- {"result":{...}} | {"harness_error": "..."}
   -> {"op":"helper","script":..,...}    <- outcome
   -> {"op":"info"}                      <- {"hashseed":..,"package":..,"tree":..}
"""
import json
import os
import signal
import struct
import sys
import time

RUN_WALL_GUARD_S = 240


def send(fd, obj):
    b = json.dumps(obj, default=repr).encode()
    os.write(fd, struct.pack(">I", len(b)))
    mv = memoryview(b)
    while mv:
        n = os.write(fd, mv[:1 << 16])
        mv = mv[n:]


def _readn(fd, n):
    buf = bytearray()
    while len(buf) < n:
        try:
            d = os.read(fd, n - len(buf))
        except InterruptedError:
            continue
        if not d:
            return None
        buf += d
    return bytes(buf)


def recv(fd):
    h = _readn(fd, 4)
    if h is None:
        return None
    (n,) = struct.unpack(">I", h)
    b = _readn(fd, n)
    if b is None:
        return None
    return json.loads(b)


def _ensure_version_module(repo_src):
    """_version.py is git-ignored; a restored tree may lack it.  Never write into /repo."""
    p = os.path.join(repo_src, "stationeers_pytrapic", "_version.py")
    if os.path.exists(p):
        return False
    import importlib.abc
    import importlib.machinery
    import types

    class F(importlib.abc.MetaPathFinder, importlib.abc.Loader):
        def find_spec(self, name, path, target=None):
            if name == "stationeers_pytrapic._version":
                return importlib.machinery.ModuleSpec(name, self)
            return None

        def create_module(self, spec):
            return None

        def exec_module(self, module):
            module.__version__ = module.version = "0.0.0+verif"
            module.__version_tuple__ = module.version_tuple = (0, 0, 0, "verif")
            module.__commit_id__ = module.commit_id = None

    sys.meta_path.insert(0, F())
    return True


def _immortalize():
    """Make every object that exists now immortal (CPython 3.12: reference count field saturated, so INCREF/DECREF
    no longer write to it).  Purely a cost measure: a run fork then does not copy a page merely because it *read* an
    object that lives on it - page faults cost ~80 microseconds each in this sandbox and are what a run fork spends most
    of its time on (measured: 5200 -> 2600 faults and 770 -> 480 ms per forked compile).  Immortal objects are never
    freed, which is what the zygote's objects are anyway; program-visible behaviour does not change."""
    import ctypes
    import gc
    if sys.version_info[:2] < (3, 12) or ctypes.sizeof(ctypes.c_void_p) != 8 or sys.byteorder != "little":
        return 0
    stack = gc.get_objects()  # taken before the book-keeping below exists, so that it is not made immortal itself
    seen = set()
    get_referents = gc.get_referents
    while stack:
        o = stack.pop()
        if o is seen or o is stack:
            continue
        i = id(o)
        if i in seen:
            continue
        seen.add(i)
        stack.extend(get_referents(o))
    u32 = ctypes.c_uint32
    for i in seen:
        u32.from_address(i).value = 0xFFFFFFFF
    n = len(seen)
    del seen, stack
    return n


def boot(repo_src):
    sys.path.insert(0, repo_src)
    synthetic_version = _ensure_version_module(repo_src)
    from sim.seams_base import STDOUT_PROXY
    saved_stdout = sys.stdout
    sys.stdout = STDOUT_PROXY  # what the package may bind at import time (see seams_base.StdStreamProxy)
    try:
        import stationeers_pytrapic  # noqa
        from stationeers_pytrapic import compiler  # noqa  (imports astroid, every pass, types, symbols)
    finally:
        sys.stdout = saved_stdout
    import astroid
    pkg_file = os.path.abspath(stationeers_pytrapic.__file__)
    if not pkg_file.startswith(os.path.abspath(repo_src) + os.sep):
        raise SystemExit("zygote: package imported from %s, not from %s" % (pkg_file, repo_src))
    # prime astroid's cache with the modules user programs import (parsing these is 2.3 s and is
    # independent of anything compiled later); no repository code is called
    try:
        m = astroid.parse("from stationeers_pytrapic.symbols import *\nimport stationeers_pytrapic.symbols\n")
        for n in m.body:
            if hasattr(n, "do_import_module"):
                try:
                    n.do_import_module()
                except Exception:
                    pass
        list(m.wildcard_import_names()) if hasattr(m, "wildcard_import_names") else None
        astroid.MANAGER.astroid_cache.pop("", None)
    except Exception as e:  # priming is an optimisation only
        sys.stderr.write("zygote: priming failed: %r\n" % (e,))
    # modules the run forks need, imported before forking
    import runpy, io, base64, asyncio, traceback, dataclasses, copy, subprocess, hashlib  # noqa
    from sim import execrun, seams, client, oracle, helper  # noqa
    import gc
    gc.collect()
    n_imm = _immortalize() if os.environ.get("VERIF_IMMORTALIZE", "1") != "0" else 0
    gc.freeze()
    return {"package": pkg_file, "synthetic_version": synthetic_version, "immortalized": n_imm}


def _wall_guard(spec):
    n = len(spec.get("ops") or []) + len((spec.get("session") or {}).get("lines") or [])
    return RUN_WALL_GUARD_S + 4 * n


def do_run(spec, helper_cache, new_helpers=None):
    from sim import helper as helper_mod
    c2p_r, c2p_w = os.pipe()
    p2c_r, p2c_w = os.pipe()
    pid = os.fork()
    if pid == 0:
        try:
            os.close(c2p_r)
            os.close(p2c_w)
            signal.alarm(_wall_guard(spec))
            from sim import execrun
            try:
                res = execrun.execute(spec, lambda o: send(c2p_w, o), lambda: recv(p2c_r))
                send(c2p_w, {"done": res})
            except BaseException as e:  # noqa
                import traceback
                send(c2p_w, {"done": {"harness_error": "run fork crashed: %r\n%s" % (e, traceback.format_exc()[-3000:])}})
        finally:
            os._exit(0)
    os.close(c2p_w)
    os.close(p2c_r)
    result = None
    while True:
        msg = recv(c2p_r)
        if msg is None:
            break
        if "helper" in msg:
            h = msg["helper"]
            key = (h["script"], h["mode"], h["data"])
            args = h.get("args") or []
            oc = helper_cache.get(key) if not args else None
            if oc is None:
                oc = helper_mod.intrinsic_outcome(h["script"], h["mode"], bytes.fromhex(h["data"]), args)
                for k in ("out", "err"):
                    if k in oc:
                        oc[k] = oc[k].hex()
                if not args:
                    helper_cache[key] = oc
                    if new_helpers is not None:
                        new_helpers.append([list(key), oc])
            try:
                send(p2c_w, oc)
            except OSError:
                pass
        elif "done" in msg:
            result = msg["done"]
            break
    os.close(c2p_r)
    os.close(p2c_w)
    _, status = os.waitpid(pid, 0)
    if result is None:
        if os.WIFSIGNALED(status):
            sig = os.WTERMSIG(status)
            what = "wall-clock guard (%d s)" % _wall_guard(spec) if sig == signal.SIGALRM else "signal %d" % sig
            return {"harness_error": "run fork killed by %s" % what}
        return {"harness_error": "run fork exited without a result (status %d)" % status}
    return result


def main():
    repo_src = sys.argv[1]
    cmd_fd = os.dup(0)
    res_fd = os.dup(1)
    dn = os.open(os.devnull, os.O_RDWR)
    os.dup2(dn, 0)
    os.dup2(2, 1)
    sys.stdout = sys.stderr
    t0 = time.monotonic()
    info = boot(repo_src)
    info["boot_s"] = round(time.monotonic() - t0, 2)
    info["hashseed"] = os.environ.get("PYTHONHASHSEED")
    info["pid"] = os.getpid()
    send(res_fd, {"ready": info})
    helper_cache = {}
    while True:
        msg = recv(cmd_fd)
        if msg is None or msg.get("op") == "quit":
            break
        op = msg.get("op")
        try:
            if op == "run":
                # helper outcomes already computed by other zygotes (a script's outcome does not depend
                # on the parent's hash seed: a real helper is a new interpreter with its own)
                for key, oc in msg.get("helpers", []):
                    helper_cache.setdefault(tuple(key), oc)
                new_helpers = []
                res = do_run(msg["spec"], helper_cache, new_helpers)
                send(res_fd, {"result": res, "new_helpers": new_helpers})
            elif op == "helper":
                from sim import helper as helper_mod
                oc = helper_mod.intrinsic_outcome(msg["script"], msg.get("mode", "eof"), bytes.fromhex(msg.get("data", "")))
                for k in ("out", "err"):
                    if k in oc:
                        oc[k] = oc[k].hex()
                send(res_fd, {"outcome": oc})
            elif op == "info":
                send(res_fd, {"info": info})
            else:
                send(res_fd, {"error": "unknown op %r" % (op,)})
        except BaseException as e:  # noqa
            import traceback
            send(res_fd, {"result": {"harness_error": "zygote: %r\n%s" % (e, traceback.format_exc()[-2000:])}})
    os._exit(0)


if __name__ == "__main__":
    main()
