"""Executes one run spec inside a run fork (child of a pristine zygote).  Consumes only the spec:
no randomness, no real clock.  Returns a JSON-able record: per-request results, violations that
need no reference, the event log, probes and fault counts.  Reference comparison happens in the
orchestrator."""
import copy
import dataclasses
import hashlib
import io
import json
import os
import sys
from collections import Counter

from . import oracle, seams
from .seams import SimSignal, SimHang, StepBudget, SimDeadlock, SimStop, Unmodelled

LAST_WORLD = None
LATE_PER_HELPER_S = 30.0  # virtual seconds allowed per helper invocation (anchor: 1 s timeout)
LATE_BASE_S = 1.0
STEP_BUDGET = 20_000_000  # the heaviest corpus compile (first in a process) needs 5e5 events
VT_BUDGET_S = 900.0  # virtual seconds one compile_code call may take before it counts as "never returns"


class HelperChannel:
    """run fork -> zygote: 'what does this script do when really executed?'"""

    def __init__(self, send, recv):
        self.send, self.recv = send, recv
        self.local = {}

    def outcome(self, script, mode, data, args=()):
        # a script that is given arguments (e.g. the name of a file to write its result to) acts on the file
        # system: it is executed every time, never answered from the memo
        key = (script, mode, data)
        if key in self.local and not args:
            return self.local[key]
        self.send({"helper": {"script": script, "mode": mode, "data": data.hex(), "args": list(args)}})
        r = self.recv()
        if r is None:
            raise Unmodelled("zygote closed the helper channel")
        for k in ("out", "err"):
            if k in r:
                r[k] = bytes.fromhex(r[k])
        if r.get("state") == "harness-error":
            raise Unmodelled("helper stub: %s" % r.get("msg"))
        if not args:
            self.local[key] = r
        return r


class World:
    def __init__(self, spec, chan):
        self.spec = spec
        self.chan = chan
        self.clock = seams.SimClock(spec.get("knobs", {}).get("clock_jumps"))
        self.events = []
        self.seq = 0
        self.probes = Counter()
        self.faults = Counter()
        self.helpers = []
        self.cur_req = 0
        self._hidx = 0
        self._plans = []
        self.req_faults = {}  # request index -> list of fault kinds that fired in it
        self.req_helpers = Counter()
        self.session = None
        self.steps = None
        self.sched = None
        self.fd_stray = {1: 0, 2: 0}

    def event(self, *a):
        self.seq += 1
        self.events.append([self.seq] + [x for x in a])

    def probe(self, name, n=1):
        self.probes[name] += n

    def fault_fired(self, kind):
        if kind == "ok":
            return
        self.faults[kind] += 1
        self.req_faults.setdefault(self.cur_req, []).append(kind)

    def begin_request(self, idx, plans):
        self.cur_req = idx
        self._hidx = 0
        self._plans = list(plans or [])

    def next_helper_index(self):
        i = self._hidx
        self._hidx += 1
        self.req_helpers[self.cur_req] += 1
        return i

    def helper_plan(self, req, idx):
        if idx < len(self._plans):
            return self._plans[idx]
        if self._plans and self._plans[-1].get("persist"):
            return self._plans[-1]  # the cause does not go away: every further helper of this request meets it too
        return {"kind": "ok", "d": 0.2}

    def helper_outcome(self, script, mode, data, args=()):
        self.probe("helper-script-run")
        return self.chan.outcome(script, mode, data, args)

    def inherited_output(self, fd, data):
        if self.session is not None:
            self.session.inherited(fd, data)
        else:
            self.fd_stray[fd] = self.fd_stray.get(fd, 0) + len(data)

    def live_helpers(self):
        return [h for h in self.helpers if h.sim_alive() and not getattr(h, "_abandoned", False)]


# ---------------------------------------------------------------------------------------------
def _mk_options(CompileOptions, style, values, shared):
    if style == "none":
        return None
    if style == "dict":
        return dict(values)
    if style == "shared":
        return shared["options"]
    return CompileOptions(**values)


def _snapshot(obj):
    if obj is None:
        return None
    if isinstance(obj, dict):
        return ("dict", list(obj.items()))
    if dataclasses.is_dataclass(obj):
        return ("obj", sorted(vars(obj).items(), key=lambda kv: kv[0]))
    return ("other", repr(obj))


def _fd_capture():
    """fd 1 / fd 2 of the run fork: in-memory files, so that anything written at descriptor level
    (os.write, C extensions, a real child) is seen and counted instead of reaching the harness.
    fd 0: a pipe nobody ever writes to and whose write end stays open - code that goes around every seam and reads the
    real descriptor blocks until the run fork's wall-clock guard turns the run into a HARNESS-ERROR (unmodelled),
    instead of seeing a bogus end of input and being reported as a violation.
    The working directory is a scratch directory (the daemon's logging option writes files into the cwd)."""
    fds = {}
    for fd in (1, 2):
        m = os.memfd_create("sim-fd%d" % fd)
        os.dup2(m, fd)
        fds[fd] = m
    r, w = os.pipe()
    os.dup2(r, 0)
    os.close(r)
    fds["stdin_keepalive"] = w
    try:
        import tempfile
        d = tempfile.mkdtemp(prefix="pytrapic-run-")
        os.chdir(d)
        fds["cwd"] = d
    except OSError:
        pass
    return fds


def _fd_size(m):
    try:
        return os.fstat(m).st_size
    except OSError:
        return 0


def _fd_read(m, limit=4096):
    try:
        return os.pread(m, limit, 0)
    except OSError:
        return b""


def _call_guarded(world, fn, budget=STEP_BUDGET, vt_budget=VT_BUDGET_S):
    """call SUT code; classify how it ended.  -> (kind, value) kind in ok|raised|hang|deadlock|stop|harness"""
    sc = world.steps
    sc.begin(budget)
    world.clock.budget, world.clock.deadline = vt_budget, world.clock.now + vt_budget
    try:
        try:
            return "ok", fn()
        finally:
            sc.limit = None  # a plain store first: calling a function here would itself be an event past the budget
            sc.end()
            world.clock.deadline = None
    except Unmodelled as e:
        return "harness", "unmodelled seam use: %s" % e
    except (SimHang, StepBudget) as e:
        return "hang", "%s" % e
    except SimDeadlock as e:
        return "deadlock", "%s" % e
    except SimStop as e:
        return "stop", "%s" % e
    except SimSignal as e:
        return "harness", "unexpected simulator signal %r" % (e,)
    except BaseException as e:  # noqa: B902 - anything escaping the SUT is the finding
        import traceback
        tb = traceback.extract_tb(e.__traceback__)
        where = ""
        for fr in reversed(tb):
            if "stationeers_pytrapic" in fr.filename:
                where = " at %s:%d" % (os.path.basename(fr.filename), fr.lineno)
                break
        return "raised", "%s: %s%s" % (type(e).__name__, str(e)[:300], where)


def run_api(world, spec):
    from stationeers_pytrapic import compiler
    from stationeers_pytrapic.compile_pass import CompileOptions

    if spec.get("knobs", {}).get("do_timing"):
        compiler._DO_TIMING = True
    compile_code = compiler.compile_code
    shared = {}
    if "shared_options" in spec:
        shared["options"] = CompileOptions(**spec["shared_options"])
    shared_src = {}
    ops_out = []
    for i, op in enumerate(spec["ops"]):
        world.begin_request(i, op.get("helpers", []))
        world.event("api", "call", i)
        values = op.get("options") or {}
        style = op.get("opt_style", "obj")
        src_spec = op["src"]
        sstyle = op.get("src_style", "dict")
        rec = {"i": i}
        try:
            options = _mk_options(CompileOptions, style, values, shared)
        except Exception as e:  # constructing the arguments is the caller's business
            rec["skipped"] = "cannot build options: %s" % e
            ops_out.append(rec)
            continue
        if sstyle == "str":
            src = src_spec[""] if isinstance(src_spec, dict) else src_spec
        elif sstyle == "shared":
            key = op.get("src_id", json.dumps(src_spec, sort_keys=False))
            src = shared_src.setdefault(key, dict(src_spec))
        else:
            src = dict(src_spec)
        caller_values = dict(spec["shared_options"]) if style == "shared" else None
        before_opts = _snapshot(options) if style != "shared" else ("obj", sorted(caller_values.items()))
        if style == "shared":
            # compare only the fields the caller set explicitly plus defaults
            full = dataclasses.asdict(CompileOptions(**caller_values))
            before_opts = ("obj", sorted(full.items()))
        before_src = list(src.items()) if isinstance(src, dict) else src
        t0, n0, h0 = world.clock.now, world.steps.n, len(world.helpers)
        kind, res = _call_guarded(world, lambda: compile_code(src, options))
        vt = world.clock.now - t0
        nh = len(world.helpers) - h0
        rec.update({"vt": round(vt, 6), "steps_log2": (world.steps.n - n0).bit_length(), "helpers": nh,
                    "faults": list(world.req_faults.get(i, []))})
        world.event("api", "return", i, kind, round(vt, 6))
        if kind == "harness":
            return {"harness_error": res, "ops": ops_out}
        checks = []
        stop = False
        if kind == "raised":
            checks.append({"class": "raised", "message": "compile_code raised %s" % res})
            res = {"__outcome__": "raised", "message": res}
        elif kind == "hang":
            checks.append({"class": "hang", "message": "compile_code does not return: %s" % res})
            res = {"__outcome__": "hang"}
            stop = True  # the process state after an aborted call is undefined
        elif kind != "ok":
            return {"harness_error": "unexpected end %s: %s" % (kind, res), "ops": ops_out}
        live = world.live_helpers()
        if live and not stop:
            h = live[0]
            st = "blocked reading the inherited stdin" if getattr(h, "_blocked_on_stdin", False) else (
                "still running (would end by itself after %.2f s)" % (h._finish - world.clock.now)
                if h._finish != seams.INF else "running forever")
            checks.append({"class": "leaked-helper",
                           "message": "helper process #%d of request %d is left behind after compile_code returned: %s"
                                      % (h._idx, h._req, st)})
            for h in live:  # so that the next request's check is about the next request
                h._abandoned = True
        for h in world.helpers[h0:]:
            if h.orphan_alive():  # in general not judged (it is the user's process, not the helper); counted
                world.probe("descendant-left-running")
                if h._group_signalled and not h._orphan_escaped and not stop:
                    # ... but a caller that signals the helper's process group has taken charge of the descendants, and
                    # one of them (still a member of that group) survived what it sent
                    checks.append({"class": "leaked-helper",
                                   "message": "a process started by helper #%d of request %d, member of the helper's process "
                                              "group, is still running after compile_code signalled that group and returned"
                                              % (h._idx, h._req)})
        if vt > LATE_BASE_S + LATE_PER_HELPER_S * max(nh, 1):
            checks.append({"class": "late",
                           "message": "compile_code took %.1f virtual seconds with %d helper invocations" % (vt, nh)})
        if kind == "ok":
            why = oracle.shape_violation(res, before_src if isinstance(before_src, str) else dict(before_src))
            if why:
                checks.append({"class": "shape", "message": why})
        if not stop:
            after_opts = _snapshot(options)
            if style == "shared":
                after_opts = ("obj", sorted(dataclasses.asdict(options).items()))
            if after_opts != before_opts:
                checks.append({"class": "input-mutated",
                               "message": "the options object was modified by compile_code: %s -> %s"
                                          % (_diff(before_opts, after_opts))})
                if style == "shared":  # the caller sets the values it wants again
                    for k, v in dict(before_opts[1]).items():
                        setattr(options, k, v)
            after_src = list(src.items()) if isinstance(src, dict) else src
            if after_src != before_src:
                checks.append({"class": "input-mutated", "message": "the source mapping was modified by compile_code"})
                if isinstance(src, dict):
                    src.clear()
                    src.update(before_src)
        rec["checks"] = checks
        try:
            norm = oracle.normalise(json.loads(json.dumps(res)))
        except Exception as e:
            norm = {"__outcome__": "unserialisable", "message": str(e)[:200]}
        rec["result"] = norm
        rec["rdigest"] = oracle.digest(norm)
        world.event("api", "result", i, rec["rdigest"], [c["class"] for c in checks])
        ops_out.append(rec)
        if stop:
            break
    return {"ops": ops_out}


def _diff(a, b):
    da, db = dict(a[1]) if a and a[0] != "other" else {}, dict(b[1]) if b and b[0] != "other" else {}
    ks = [k for k in sorted(set(da) | set(db)) if da.get(k) != db.get(k)]
    return ({k: da.get(k) for k in ks}, {k: db.get(k) for k in ks})


# ---------------------------------------------------------------------------------------------
def run_daemon(world, spec):
    import runpy
    from . import client
    from stationeers_pytrapic import compiler

    sess_spec = spec["session"]
    if spec.get("knobs", {}).get("do_timing"):
        compiler._DO_TIMING = True
    session = client.Session(world, sess_spec)
    world.session = session
    world.sched.session = session
    stdin, stdout, stderr = client.make_streams(session, sess_spec.get("stdin_errors", "surrogateescape"))
    saved = (sys.stdin, sys.stdout, sys.stderr, sys.__stdout__, sys.__stderr__, sys.__stdin__)
    client.install_fd_seams(world, session, stdin, stdout, stderr)
    from .seams_base import STDOUT_PROXY
    STDOUT_PROXY.target = stdout  # import-time bindings of sys.stdout in the package reach the real stdout
    sys.stdin = sys.__stdin__ = stdin
    sys.stdout = sys.__stdout__ = stdout
    sys.stderr = sys.__stderr__ = stderr
    sys.modules.pop("stationeers_pytrapic.mod_daemon", None)
    argv0 = sys.argv
    sys.argv = ["mod_daemon"]

    def go():
        runpy.run_module("stationeers_pytrapic.mod_daemon", run_name="__main__", alter_sys=False)
        # interpreter shutdown waits for the non-daemon threads the program has started
        try:
            world.sched.drain()
        except SimHang:
            session._violate("no-exit", "the daemon's main returned but a thread it started never ends: the process does not exit")
            raise SimStop("threads never end")

    budget = STEP_BUDGET * max(1, len(sess_spec["lines"]))
    kind, res = _call_guarded(world, go, budget, VT_BUDGET_S * max(1, len(sess_spec["lines"])))
    # interpreter shutdown flushes the standard streams
    flush_err = None
    if kind in ("ok", "raised"):
        try:
            stdout.flush()
        except BaseException as e:  # noqa
            flush_err = repr(e)
    sys.stdin, sys.stdout, sys.stderr, sys.__stdout__, sys.__stderr__, sys.__stdin__ = saved
    sys.argv = argv0
    world.event("daemon", "end", kind)
    out = {"end": kind, "violation": session.violation}
    if kind == "harness":
        return {"harness_error": res}
    exited_by = None
    lo, hi, exit_delivered = session.expected_reply_bounds()
    if kind == "ok":
        fully_delivered = not session.inpipe or session.exit_sent
        if exit_delivered:
            exited_by = "EXIT"
        elif session.closed and session.eof_reads >= 1:
            exited_by = "EOF"
        else:
            if out["violation"] is None:
                out["violation"] = {"class": "early-exit",
                                    "message": "the daemon's main returned although neither EXIT nor end of input "
                                               "had been delivered (%d lines handed, %d of %d lines sent)"
                                               % (session.handed, session.next_line, len(session.lines))}
    elif kind == "raised":
        if out["violation"] is None:
            out["violation"] = {"class": "terminated", "message": "the daemon died: %s" % res}
    elif kind == "hang":
        if out["violation"] is None:
            out["violation"] = {"class": "hang", "message": "the daemon does not come back: %s" % res}
    # frames
    lines, tail = session.reply_lines()
    replies = []
    bad = None
    for j, raw in enumerate(lines):
        obj, why = oracle.parse_reply_line(raw)
        if obj is None:
            bad = bad or "reply line %d: %s: %r" % (j, why, raw[:80])
            replies.append(None)
        else:
            replies.append(obj)
    if tail:
        bad = bad or "unterminated bytes at the end of standard output: %r" % (bytes(tail[:80]),)
    if bad and out["violation"] is None:
        out["violation"] = {"class": "bad-frame", "message": bad}
    if flush_err and out["violation"] is None:
        out["violation"] = {"class": "bad-frame", "message": "flushing stdout at exit failed: %s" % flush_err}
    live = world.live_helpers()
    out.update({
        "replies": [oracle.normalise(r) if r is not None else None for r in replies],
        "n_reply_lines": len(lines),
        "lo": lo, "hi": hi,
        "exited_by": exited_by,
        "handed": session.handed,
        "sent": session.next_line,
        "delivered_lines": len(session.complete_delivered_lines()[0]),
        "torn_tail": bool(session.complete_delivered_lines()[1]),
        "stolen": session.stolen,
        "stderr_bytes": session.stderr_bytes,
        "blocks": session.blocks,
        "req_faults": {str(k): v for k, v in world.req_faults.items()},
        "req_helpers": {str(k): v for k, v in world.req_helpers.items()},
        "vt": round(world.clock.now, 6),
        "live_helpers_at_end": len(live),
    })
    return out


# ---------------------------------------------------------------------------------------------
def execute(spec, send, recv):
    """entry point in the run fork"""
    fds = _fd_capture()
    world = World(spec, HelperChannel(send, recv))
    global LAST_WORLD
    LAST_WORLD = world  # development aid (sim/debugrun.py)
    seams.install(world, step_monitoring=bool(spec.get("knobs", {}).get("step_clock", True)))
    saved_out, saved_err = sys.stdout, sys.stderr
    if spec["kind"] == "api":
        # Python-level stdout/stderr of an API caller: counted, not judged
        sys.stdout = io.TextIOWrapper(io.BufferedWriter(_Count(world, "py-stdout")), encoding="utf-8", errors="replace")
        from .seams_base import STDOUT_PROXY
        STDOUT_PROXY.target = sys.stdout
        sys.stderr = io.TextIOWrapper(io.BufferedWriter(_Count(world, "py-stderr")), encoding="utf-8", errors="replace")
        out = run_api(world, spec)
        try:
            sys.stdout.flush()
            sys.stderr.flush()
        except Exception:
            pass
    elif spec["kind"] == "daemon":
        out = run_daemon(world, spec)
    else:
        out = {"harness_error": "unknown run kind %r" % spec.get("kind")}
    sys.stdout, sys.stderr = saved_out, saved_err
    fd1 = _fd_size(fds[1])
    fd2 = _fd_size(fds[2])
    if spec["kind"] == "daemon" and fd1 and not out.get("harness_error") and out.get("violation") is None:
        out["violation"] = {"class": "bad-frame",
                            "message": "%d bytes were written to descriptor 1 behind the reply stream: %r"
                                       % (fd1, _fd_read(fds[1], 80))}
    out["fd1_bytes"], out["fd2_bytes"] = fd1, fd2
    if fds.get("cwd"):
        try:
            left = sorted(os.listdir(fds["cwd"]))
            if left:
                out.setdefault("probes_extra", {})["files-written-to-cwd"] = len(left)
            import shutil
            os.chdir("/")
            shutil.rmtree(fds["cwd"], ignore_errors=True)
        except OSError:
            pass
    if fd2 and out.get("harness_error"):
        out["fd2_tail"] = _fd_read(fds[2], 2000).decode("utf-8", "replace")
    out["events"] = world.events
    out["probes"] = dict(world.probes)
    out["probes"].update(out.pop("probes_extra", {}))
    out["faults"] = dict(world.faults)
    if world.clock.jumped:
        world.faults["clock_jump"] += world.clock.jumped
    out["faults"] = dict(world.faults)
    out["vtime"] = round(world.clock.now, 6)
    out["steps"] = world.steps.n
    sc = world.sched
    out["sched"] = {"threads": len(sc.threads), "switches": sc.switches, "decisions": sc.decisions, "plan_used": sc.plan_used}
    h = hashlib.sha256()
    h.update(json.dumps(world.events, sort_keys=True, default=repr).encode())
    h.update(json.dumps({k: v for k, v in out.items() if k in ("ops", "replies", "violation", "end")},
                        sort_keys=True, default=repr).encode())
    out["digest"] = h.hexdigest()[:20]
    import resource
    ru = resource.getrusage(resource.RUSAGE_SELF)
    out["rusage"] = {"utime": round(ru.ru_utime, 4), "stime": round(ru.ru_stime, 4), "minflt": ru.ru_minflt}
    return out


class _Count(io.RawIOBase):
    def __init__(self, world, name):
        self.w, self.name = world, name

    def writable(self):
        return True

    def write(self, b):
        self.w.probe(self.name + "-bytes", len(b))
        return len(b)
